"""C32 — WebSocket handshake and outgoing frames: protocol constants and encoder structure (K6/K4)."""
from ..core import Rule
from ..prog import *
from ..facts import AnalysisBroken
from ..consts import ConstFlow
from ..interp import normx, nkey, run_all

UNITS = ["ws", "sha1"]
LEVEL = "other"
EXPLANATION = ("K6 against RFC 6455 / RFC 4648 / FIPS 180-4: the accept-key format string is \"%s\" + the RFC 6455 GUID and feeds builtin_SHA1 then "
               "Base64encode of the 20-byte digest; basis_64 is the RFC 4648 alphabet; each of Base64encode's sextet index expressions is compiled from the AST "
               "and compared with the reference sextet for all 2^8/2^16 values of the bytes it reads (as signed chars, the type the code uses); padding "
               "emits '=' twice for one leftover byte and once for two; SHA-1: the five IV words in order, and each of the 80 unrolled round statements is "
               "matched against the FIPS template (K_t, truth table of f_t over its three operands, rol 5 / rol 30, the a..e role rotation, message-schedule "
               "indices t / t+13,t+8,t+2,t mod 16 with rol 1, big-endian load on little-endian hosts); make_ws_frame: FIN|opcode first byte, length forms 125 / "
               "65535 thresholds with markers 126 / 127, big-endian 16- and 64-bit lengths, header then payload; evws_close: 0x88, length 2, htons(code). "
               "Decides these constants and shapes; does not decide digest/encoding correctness of the padding/length logic of SHA1Update/Final for all inputs.")
ASSUMPTIONS = ["little-endian or big-endian host as configured by the build", "ASCII"]
CONFIGS = ["build", "assert"]

GUID = "258EAFA5-E914-47DA-95CA-C5AB0DC85B11"
B64 = "ABCDEFGHIJKLMNOPQRSTUVWXYZabcdefghijklmnopqrstuvwxyz0123456789+/"
IV = [0x67452301, 0xEFCDAB89, 0x98BADCFE, 0x10325476, 0xC3D2E1F0]
K = [0x5A827999, 0x6ED9EBA1, 0x8F1BBCDC, 0xCA62C1D6]
F = [lambda b, c, d: (b & c) | (~b & d), lambda b, c, d: b ^ c ^ d, lambda b, c, d: (b & c) | (b & d) | (c & d), lambda b, c, d: b ^ c ^ d]


def rol_amount(e, var):
    """e == rol(var, n) i.e. ((var << n) | (var >> (32-n))) -> n else None"""
    e = strip(e)
    if is_e(e, "bin") and e[1] == "|":
        l, r = strip(e[2]), strip(e[3])
        if is_e(l, "bin") and l[1] == "<<" and is_e(r, "bin") and r[1] == ">>" and eq(l[2], r[2]) and (var is None or eq(l[2], var)):
            a, b = strip(l[3]), strip(r[3])
            if is_e(a, "int") and is_e(b, "int") and a[1] + b[1] == 32:
                return a[1], l[2]
    return None


def flatten_add(e):
    e = strip(e)
    if is_e(e, "bin") and e[1] == "+":
        return flatten_add(e[2]) + flatten_add(e[3])
    return [e]


def rule_frame_eval(P):
    """make_ws_frame evaluated: for opcodes x payload lengths around every boundary of the three length forms, what is appended to the output is exactly the RFC 6455 header (FIN set,
    RSV clear, no mask, shortest length form, big-endian) followed by the len payload bytes - by copy, nothing else"""
    from ..interp import run_all, normx, nkey
    r = Rule("C32-frame-eval", "K6", "make_ws_frame appends exactly the RFC 6455 header for (opcode, len) and then the payload", floor=40)
    f = P.fn("make_ws_frame")
    lens = [0, 1, 125, 126, 127, 255, 256, 65535, 65536, 70000, (1 << 32) - 1, 1 << 32, (1 << 40) + 5]
    for opc in (1, 2, 8, 9, 10):
        for ln in lens:
            env = {"#typed": 1, f.params[0][0]: 9, f.params[1][0]: opc, f.params[2][0]: 500, f.params[3][0]: ln, "#adds": ()}

            def hook(el, e_):
                n = callee_name(el.e)
                if n is None:
                    return None
                if n == "evbuffer_add":
                    a = el.e[2]
                    try:
                        cnt = evalx(normx(a[2]), e_, P)
                    except EvalError:
                        cnt = None
                    src = strip(a[1])
                    if is_e(src, "var") and src[1] == f.params[2][0]:
                        e_["#adds"] = e_["#adds"] + (("payload", cnt),)
                    else:
                        data = []
                        for k in range(cnt if isinstance(cnt, int) and 0 <= cnt <= 32 else 0):
                            data.append(e_.get(nkey(["idx", src, ["int", k]])))
                        e_["#adds"] = e_["#adds"] + (("bytes", tuple(data)),)
                    return 0
                if n.startswith("evbuffer_") or n in ("bufferevent_write", "bufferevent_write_buffer"):
                    e_["#adds"] = e_["#adds"] + ((n,),)
                    return 0
                return None
            want_hdr = [0x80 | opc]
            if ln <= 125:
                want_hdr.append(ln)
            elif ln <= 65535:
                want_hdr += [126, ln >> 8, ln & 0xff]
            else:
                want_hdr += [127] + [(ln >> s_) & 0xff for s_ in range(56, -8, -8)]
            want = (("bytes", tuple(want_hdr)), ("payload", ln))
            for o in run_all(f, (f.entry, 0), env, lambda el: False, P, hook, max_steps=1200):
                if o.kind == "exit" and o.why == "noreturn":
                    continue
                if o.kind == "unknown":
                    r.brk("make_ws_frame(opcode %d, len %d): %s" % (opc, ln, o.why))
                    return r
                got = tuple((x[0], tuple((v & 0xff) if isinstance(v, int) else v for v in x[1])) if x[0] == "bytes" else x for x in o.env["#adds"])
                r.inst((opc, ln), {"opcode": opc, "len": ln, "appended": [list(x) if x[0] != "bytes" else ["bytes", list(x[1])] for x in got]} if ln in (5, 126, 65536) or (opc == 1 and ln == 125) else None)
                if got != want:
                    r.bad("K6:make_ws_frame:frame", "%s:%d" % (f.file, f.line), f.name, "opcode %d, payload of %d bytes: appends %s; RFC 6455: header %s then the payload (copied)" % (opc, ln, list(got), want_hdr))
    seen, uniq = set(), []
    for f_ in r.findings:
        if f_.key not in seen:
            seen.add(f_.key)
            uniq.append(f_)
    r.findings = uniq
    return r


ADDS = ("evbuffer_add", "evbuffer_add_printf", "evbuffer_add_buffer", "evbuffer_add_reference", "evbuffer_add_vprintf")


def rule_frame_atomic(P):
    """a frame is queued with more than one evbuffer_add (header, then payload): each add is atomic, the pair is not - with BEV_OPT_THREADSAFE a second sender could put its frame
    between the two.  Whoever queues a frame in several parts holds the bufferevent's lock across them."""
    r = Rule("C32-frame-atomic", "K1/K3", "a frame queued in several parts is queued under the bufferevent lock: the multi-part emitter locks itself, or every call of it lies between bufferevent_lock and "
             "bufferevent_unlock of the same bufferevent", floor=2)

    def locked_at(f, el):
        locks = [x for x in f.calls("bufferevent_lock") if f.pos_dominates(x.pos(), el.pos())]
        for lk in locks:
            # no unlock between the lock and the element, and no way out of the function without the unlock
            between = f.path_avoiding(lk.pos(), lambda x: x is el, lambda x: False)
            unl_before = f.path_avoiding(lk.pos(), lambda x: x.e[0] == "call" and callee_name(x.e) == "bufferevent_unlock", lambda x: x is el)
            leaves = f.exit_reachable_avoiding(el.pos(), lambda x: x.e[0] == "call" and callee_name(x.e) == "bufferevent_unlock")
            if between is not None and unl_before is None and not leaves:
                return lk
        return None
    emitters = {}
    for g in P.fns_in("ws.c"):
        groups = {}
        for el in g.calls():
            if callee_name(el.e) in ADDS:
                a0 = strip(el.e[2][0])
                if is_e(a0, "var"):
                    groups.setdefault(a0[1], []).append(el)
        for v, els in groups.items():
            multi = [(a, b) for a in els for b in els if a is not b and g.path_avoiding(a.pos(), lambda x, b=b: x is b, lambda x: False) is not None]
            if multi:
                emitters[g.name] = (g, v, els)
    for name, (g, v, els) in sorted(emitters.items()):
        self_locked = all(locked_at(g, el) is not None for el in els)
        is_param = v in [p[0] for p in g.params]
        r.inst(("emitter", name), {"fn": name, "buffer": v, "parts": [e.where() for e in els], "locks_itself": self_locked})
        if self_locked:
            continue
        callers = [(f, el) for f in P.fns_in("ws.c") for el in f.calls(name)]
        if not callers and not is_param:
            r.bad("K1:%s:frame-parts-unlocked" % name, els[0].where(), name, "%d separate additions to `%s` without the bufferevent lock around them" % (len(els), v))
        for f, el in callers:
            lk = locked_at(f, el)
            r.inst(("call", f.name, el.n), {"fn": f.name, "site": el.where(), "calls": name, "under_lock_taken_at": lk.where() if lk else None})
            if lk is None:
                r.bad("K1:%s:frame-parts-unlocked" % f.name, el.where(), f.name,
                      "%s queues a frame with %d separate additions to the output buffer and is called here without bufferevent_lock/bufferevent_unlock around the call: with BEV_OPT_THREADSAFE "
                      "another thread's frame can land between this frame's header and its payload" % (name, len(els)))
    if not emitters:
        r.brk("no multi-part frame emitter found in ws.c")
    return r


def run(ctx, config):
    P = ctx.prog(UNITS, config)
    rules = []
    # ------------------------------------------------ accept key
    r = Rule("C32-accept", "K6/K8", "ws_gen_accept_key: \"%s\"+GUID -> builtin_SHA1 -> Base64encode(20 bytes); basis_64 alphabet", floor=4)
    f = P.fn("ws_gen_accept_key")
    fmts = [s for el in f.calls() for s in walk(el.e) if is_e(s, "str") and "%s" in s[1]]
    r.inst("guid", {"format": fmts[0][1] if fmts else None})
    if len(fmts) != 1 or fmts[0][1] != "%s" + GUID:
        r.bad("K6:ws_gen_accept_key:guid", "%s:%d" % (f.file, f.line), f.name,
              "key material format is %r, RFC 6455 requires the client key immediately followed by %s" % (fmts[0][1] if fmts else None, GUID))
    sha = list(f.calls("builtin_SHA1"))
    b64 = list(f.calls("Base64encode"))
    ok = len(sha) == 1 and len(b64) == 1 and f.pos_dominates(sha[0].pos(), b64[0].pos()) and eq(sha[0].e[2][0], b64[0].e[2][1]) \
        and is_e(strip(b64[0].e[2][2]), "int") and strip(b64[0].e[2][2])[1] == 20
    r.inst("flow", {"sha1": show(sha[0].e) if sha else None, "base64": show(b64[0].e) if b64 else None})
    if not ok:
        r.bad("K8:ws_gen_accept_key:flow", "%s:%d" % (f.file, f.line), f.name, "the accept value is not Base64encode of the 20-byte builtin_SHA1 digest of the key material")
    elif not (eq(sha[0].e[2][1], ["var", "buf", "local"]) and is_e(strip(sha[0].e[2][2]), "call") and callee_name(strip(sha[0].e[2][2])) == "strlen"):
        r.bad("K8:ws_gen_accept_key:hash-input", sha[0].where(), f.name, "builtin_SHA1 is not applied to the whole formatted key material")
    g = P.global_("basis_64")
    alpha = g["init"][1] if g.get("init") and g["init"][0] == "str" else None
    r.inst("alphabet", {"basis_64": alpha})
    if alpha != B64:
        r.bad("K6:basis_64:alphabet", "%s:%d" % (g["file"], g["line"]), "basis_64", "not the RFC 4648 base64 alphabet")
    r.inst("sha1-entry", {"fn": "builtin_SHA1"})
    rules.append(r)

    # ------------------------------------------------ Base64encode sextets, exhaustively
    r2 = Rule("C32-base64", "K6", "Base64encode: every sextet index expression equals the reference for all byte values it reads; '=' padding count", floor=9)
    f = P.fn("Base64encode")
    sname = f.params[1][0]
    stores = [(el, lhs, rhs) for el, lhs, op, rhs in f.stores() if is_e(strip(lhs), "deref") and is_e(strip(strip(lhs)[1]), "incdec")]
    # classify stores by guards: main loop (for), tail
    exprs = []
    for el, lhs, rhs in stores:
        rr = strip(rhs)
        if is_e(rr, "idx") and eq(rr[1], ["var", "basis_64", "global"]):
            exprs.append((el, rr[2]))
    ivar = None
    for b in f.branch_blocks():
        if b.term["k"] == "for":
            c = strip(b.term["cond"])
            if is_e(c, "bin") and c[1] == "<":
                ivar = strip(c[2])
                bound = c[3]
                r2.inst("loop", {"cond": show(c)})
                bb = strip(bound)
                if not (is_e(bb, "bin") and bb[1] == "-" and is_e(strip(bb[3]), "int") and strip(bb[3])[1] == 2):
                    r2.bad("K4:Base64encode:loop-bound", "%s:%d" % (f.file, b.term["loc"][0]), f.name, "main loop must run while i < len - 2")
    if ivar is None:
        r2.brk("Base64encode: main loop not found")
    else:
        def ref(j, b):
            # reference sextet j of the 3-byte group b (unsigned bytes; missing bytes are 0)
            v = (b[0] << 16) | (b[1] << 8) | b[2]
            return (v >> (18 - 6 * j)) & 0x3F
        for el, ix in exprs:
            leaves = {}
            for s in walk(ix):
                if is_e(s, "idx") and eq(s[1], ["var", sname, "param"]):
                    o = strip(s[2])
                    if eq(o, ivar):
                        off = 0
                    elif is_e(o, "bin") and o[1] == "+" and eq(o[2], ivar) and is_e(strip(o[3]), "int"):
                        off = strip(o[3])[1]
                    else:
                        off = None
                    leaves[key(s)] = off
            if None in leaves.values() or not leaves or max(leaves.values()) > 2:
                r2.brk("%s: unrecognised byte reference in %s" % (el.where(), show(ix)))
                continue
            offs = sorted(set(leaves.values()))
            argn = {k: "b%d" % o for k, o in leaves.items()}
            try:
                fnc, names = compilex(ix, argn, P)
            except EvalError as ex:
                r2.brk("%s: %s" % (el.where(), ex))
                continue
            # which sextet is it? decide by position among the stores of its group: compare with each candidate
            # tail stores see fewer bytes: bytes not read are 0 in the reference
            cands = []
            for j in range(4):
                okj = True
                import itertools
                for vals in itertools.product(range(256), repeat=len(offs)):
                    b = [0, 0, 0]
                    args = {}
                    for o, v in zip(offs, vals):
                        b[o] = v
                        args["b%d" % o] = v - 256 if v >= 128 else v     # the code reads `const char`
                    got = fnc(*[args[n] for n in names])
                    if got != ref(j, b):
                        okj = False
                        break
                if okj:
                    cands.append(j)
            r2.inst(("sextet", el.n), {"site": el.where(), "index": show(ix), "bytes_read": offs, "domain": 256 ** len(offs), "matches_sextet": cands})
            if not cands:
                r2.bad("K6:Base64encode:sextet@%s" % show(ix)[:50], el.where(), f.name,
                       "index expression %s is not any RFC 4648 sextet of the bytes it reads (checked on all %d values)" % (show(ix), 256 ** len(offs)))
        # padding: '=' stores
        pads = [el for el, lhs, rhs in stores if is_e(strip(rhs), "int") and strip(rhs)[1] == 61]
        one_left = []
        for b in f.branch_blocks():
            c = strip(b.term["cond"])
            if is_e(c, "bin") and c[1] == "==" and eq(c[2], ivar):
                one_left.append(b)
        npad_in = sum(1 for p in pads if any(t and is_e(strip(c), "bin") and strip(c)[1] == "==" for c, t, _ in f.guards_at(p.bid)))
        r2.inst("padding", {"pad_stores": len(pads), "inside_one_byte_left_branch": npad_in})
        if len(pads) != 2 or npad_in != 1 or len(one_left) != 1:
            r2.bad("K4:Base64encode:padding", "%s:%d" % (f.file, f.line), f.name,
                   "padding must be '==' when one byte is left and '=' when two are left (found %d '=' stores, %d under the one-byte test)" % (len(pads), npad_in))
    rules.append(r2)

    # ------------------------------------------------ SHA-1 template
    r3 = Rule("C32-sha1", "K6", "SHA-1: IV words and the 80 unrolled rounds match FIPS 180-4 (K_t, f_t truth table, rotations, role rotation, schedule indices)", floor=86)
    fi = P.fn("SHA1Init")
    ivs = {}
    for el, lhs, op, rhs in fi.stores():
        l = strip(lhs)
        if is_e(l, "idx") and is_e(strip(l[1]), "fld") and strip(l[1])[2].endswith(".state") and is_e(strip(l[2]), "int") and is_e(strip(rhs), "int"):
            ivs[strip(l[2])[1]] = strip(rhs)[1] & 0xffffffff
    for i, w in enumerate(IV):
        r3.inst(("iv", i), {"state": i, "value": "%#010x" % ivs.get(i, 0)})
        if ivs.get(i) != w:
            r3.bad("K6:SHA1Init:iv%d" % i, "%s:%d" % (fi.file, fi.line), fi.name, "state[%d] initialised to %s, FIPS 180-4 says %#010x" % (i, ivs.get(i), w))
    ft = P.fn("SHA1Transform")
    rounds = []
    elems = [el for b in ft.rpo() for el in ft.blocks[b].elems]
    role = ["a", "b", "c", "d", "e"]
    upd = [el for el in elems if el.e[0] == "asg" and el.e[1] == "+=" and is_e(strip(el.e[2]), "var") and strip(el.e[2])[1] in role and el.mac]
    rots = [el for el in elems if el.e[0] == "asg" and el.e[1] == "=" and is_e(strip(el.e[2]), "var") and strip(el.e[2])[1] in role and el.mac
            and rol_amount(el.e[3], el.e[2])]
    if len(upd) != 80 or len(rots) != 80:
        r3.brk("SHA1Transform: expected 80 round updates and 80 rotations, found %d/%d" % (len(upd), len(rots)))
    else:
        little = None
        for t in range(80):
            el = upd[t]
            z = strip(el.e[2])[1]
            v = role[(0 - t) % 5]; w = role[(1 - t) % 5]; x = role[(2 - t) % 5]; y = role[(3 - t) % 5]; zz = role[(4 - t) % 5]
            msgs = []
            terms = flatten_add(el.e[3])
            kc = [s for s in terms if is_e(s, "int")]
            rolt = [s for s in terms if rol_amount(s, None)]
            rest = [s for s in terms if not is_e(s, "int") and not rol_amount(s, None)]
            blk = [s for s in rest if any(is_e(q, "fld") for q in walk(s))]
            fun = [s for s in rest if s not in blk]
            problems = []
            if z != zz:
                problems.append("updates %s, role rotation expects %s" % (z, zz))
            if len(kc) != 1 or (kc[0][1] & 0xffffffff) != K[t // 20]:
                problems.append("K_t is %s, expected %#010x" % ([show(q) for q in kc], K[t // 20]))
            if len(rolt) != 1 or rol_amount(rolt[0], None)[0] != 5 or not eq(rol_amount(rolt[0], None)[1], ["var", v, "local"]):
                problems.append("rol(%s,5) term missing" % v)
            if len(fun) != 1:
                problems.append("cannot isolate f_t")
            else:
                vs = sorted(set(q[1] for q in walk(fun[0]) if is_e(q, "var")))
                if vs != sorted([w, x, y]):
                    problems.append("f_t reads %s, expected %s" % (vs, sorted([w, x, y])))
                else:
                    for bits in range(8):
                        bw, bx, by = (bits >> 2) & 1, (bits >> 1) & 1, bits & 1
                        got = evalx(fun[0], {w: bw, x: bx, y: by}) & 1
                        if got != F[t // 20](bw, bx, by) & 1:
                            problems.append("f_t truth table differs at (%d,%d,%d)" % (bw, bx, by))
                            break
            if len(blk) != 1:
                problems.append("message word term missing")
            else:
                m = strip(blk[0])
                # W_t: t<16: load of l[t] (byte-swapped store on little-endian); else l[t&15] = rol(l[(t+13)&15]^l[(t+8)&15]^l[(t+2)&15]^l[t&15], 1)
                if not is_e(m, "asg") and t < 16:
                    idxs = [strip(q[2])[1] for q in walk(m) if is_e(q, "idx") and is_e(strip(q[2]), "int")]
                    if idxs != [t]:
                        problems.append("W_%d reads l%s" % (t, idxs))
                elif is_e(m, "asg"):
                    tgt = strip(m[2])
                    ti = strip(tgt[2])[1] if is_e(tgt, "idx") and is_e(strip(tgt[2]), "int") else None
                    if ti != t % 16:
                        problems.append("W_%d stored to l[%s]" % (t, ti))
                    rhs = strip(m[3])
                    if t < 16:
                        # byte swap: (rol(x,24)&0xFF00FF00)|(rol(x,8)&0x00FF00FF)
                        src = set(strip(q[2])[1] for q in walk(rhs) if is_e(q, "idx") and is_e(strip(q[2]), "int"))
                        if src != {t}:
                            problems.append("W_%d loaded from l%s" % (t, sorted(src)))
                        else:
                            leaf = [q for q in walk(rhs) if is_e(q, "idx")][0]
                            for probe in [1 << i for i in range(32)] + [0x01020304, 0xffffffff]:
                                got = evalx(rhs, {key(leaf): probe}) & 0xffffffff
                                want = int.from_bytes(probe.to_bytes(4, "little"), "big")
                                if got != want:
                                    problems.append("W_%d load is not a 32-bit byte swap (probe %#x)" % (t, probe))
                                    break
                    else:
                        ra = rol_amount(rhs, None)
                        if not ra or ra[0] != 1:
                            problems.append("W_%d: schedule rotation is not rol 1" % t)
                        else:
                            src = sorted(strip(q[2])[1] for q in walk(ra[1]) if is_e(q, "idx") and is_e(strip(q[2]), "int"))
                            want = sorted([(t + 13) & 15, (t + 8) & 15, (t + 2) & 15, t & 15])
                            xors = all(not is_e(q, "bin") or q[1] == "^" for q in walk(ra[1]))
                            if src != want or not xors:
                                problems.append("W_%d = rol1(xor of l%s), expected l%s" % (t, src, want))
            rt = rots[t]
            ra = rol_amount(rt.e[3], rt.e[2])
            if strip(rt.e[2])[1] != w or ra[0] != 30:
                problems.append("rotation after round is %s, expected %s = rol(%s,30)" % (show(rt.e), w, w))
            r3.inst(("round", t), {"t": t, "update": show(el.e)[:90], "macro": el.mac[0] if el.mac else None} if t in (0, 16, 20, 40, 79) else None)
            for pmsg in problems:
                r3.bad("K6:SHA1Transform:round%d:%s" % (t, pmsg.split(",")[0].split(" ")[0]), el.where(), ft.name, "round %d: %s" % (t, pmsg))
        # feed-forward
        ff = [el for el in elems if el.e[0] == "asg" and el.e[1] == "+=" and is_e(strip(el.e[2]), "idx") and eq(strip(el.e[2])[1], ["var", "state", "param"])]
        got = [(strip(strip(el.e[2])[2])[1], strip(el.e[3])[1]) for el in ff if is_e(strip(strip(el.e[2])[2]), "int") and is_e(strip(el.e[3]), "var")]
        r3.inst("feedforward", {"adds": got})
        if sorted(got) != [(i, role[i]) for i in range(5)]:
            r3.bad("K6:SHA1Transform:feedforward", "%s:%d" % (ft.file, ft.line), ft.name, "state[i] += working variable i expected, found %s" % got)
    rules.append(r3)

    # ------------------------------------------------ make_ws_frame / evws_close
    r4 = Rule("C32-frame", "K6/K4", "make_ws_frame: FIN|opcode, length forms and big-endian lengths; evws_close: 0x88, 2, network-order code", floor=8)
    # make_ws_frame is decided by evaluation (C32-frame-eval); its syntactic clauses are notes
    def r4_note(key_, where_, fn_, msg_):
        r4.notes.append("%s: %s" % (key_, msg_))
    f = P.fn("make_ws_frame")
    ln = f.params[3][0]
    hdr_stores = [(el, lhs, rhs) for el, lhs, op, rhs in f.stores() if is_e(strip(lhs), "idx") and eq(strip(lhs)[1], ["var", "header", "local"])]
    CF = ConstFlow(f, P)
    bypos = {}
    for el, lhs, rhs in hdr_stores:
        ix = strip(strip(lhs)[2])
        own = None
        if is_e(ix, "incdec"):
            for e2 in f.blocks[el.bid].elems[:el.idx]:
                if eq(e2.e, ix):
                    own = e2
        if own is None:
            r4.notes.append("%s: header index %s not recognised" % (el.where(), show(ix)))
            continue
        for st in CF.states_before(own):
            pv = dict(st).get(strip(ix[3])[1])
            bypos.setdefault(el.n, set()).add(pv)
    def guards_len(el):
        out = []
        for c, t, b in f.guards_at(el.bid):
            c = strip(c)
            if is_e(c, "bin") and c[1] in ("<=", "<", ">", ">=") and eq(c[2], ["var", ln, "param"]) and is_e(strip(c[3]), "int"):
                out.append((c[1], strip(c[3])[1], t))
        return out
    INF = 1 << 70

    def interval(gl):
        """the range of len under the guards, however they are spelled (len <= 125 taken, or len > 125 not taken, ...)"""
        lo, hi = 0, INF
        for op, v, t in gl:
            if not t:
                op = {"<=": ">", "<": ">=", ">": "<=", ">=": "<"}[op]
            if op == "<=":
                hi = min(hi, v)
            elif op == "<":
                hi = min(hi, v - 1)
            elif op == ">":
                lo = max(lo, v + 1)
            else:
                lo = max(lo, v)
        return (lo, hi)
    forms = {"first": None, "len7": None, "m126": None, "m127": None, "b16": [], "b64": None}
    for el, lhs, rhs in hdr_stores:
        pos = bypos.get(el.n, set())
        rr = rhs
        gl = guards_len(el)
        if pos == {0}:
            forms["first"] = (el, rr)
        elif pos == {1}:
            s = strip(rr)
            if is_e(s, "int") and s[1] == 126:
                forms["m126"] = (el, gl)
            elif is_e(s, "int") and s[1] == 127:
                forms["m127"] = (el, gl)
            elif eq(s, ["var", ln, "param"]):
                forms["len7"] = (el, gl)
        elif pos and pos <= {2, 3} and interval(gl)[1] == 65535:
            forms["b16"].append((el, pos, rr))
        else:
            forms["b64"] = (el, pos, rr)
    el0 = forms["first"]
    ok0 = False
    if el0:
        s = strip(el0[1])
        ok0 = is_e(s, "bin") and s[1] == "|" and is_e(strip(s[3]), "int") and strip(s[3])[1] == 0x80 and eq(s[2], ["var", f.params[1][0], "param"])
    r4.inst("byte0", {"store": show(el0[0].e) if el0 else None})
    if not ok0:
        r4_note("K6:make_ws_frame:first-byte", "%s:%d" % (f.file, f.line), f.name, "first header byte must be opcode | 0x80 (FIN, RSV clear, single frame)")
    def need(form, name, pred, what):
        v = forms[form]
        r4.inst(name, {"store": show(v[0].e) if v else None, "guards": v[1] if v and isinstance(v[1], list) else None})
        if not v or not pred(v):
            r4_note("K6:make_ws_frame:" + name, "%s:%d" % (f.file, f.line), f.name, what)
    need("len7", "len7", lambda v: interval(v[1]) == (0, 125), "7-bit length form must be used exactly for len <= 125")
    need("m126", "marker126", lambda v: interval(v[1]) == (126, 65535), "marker 126 must be used exactly for 125 < len <= 65535")
    need("m127", "marker127", lambda v: interval(v[1]) == (65536, INF), "marker 127 must be used exactly for len > 65535")
    b16 = sorted(forms["b16"], key=lambda x: min(x[1]))
    ok16 = len(b16) == 2 and b16[0][1] == {2} and b16[1][1] == {3}
    if ok16:
        for probe in (0x1234, 0xff00, 126, 65535):
            hi = evalx(b16[0][2], {ln: probe}) & 0xff
            lo = evalx(b16[1][2], {ln: probe}) & 0xff
            if (hi, lo) != (probe >> 8, probe & 0xff):
                ok16 = False
    r4.inst("len16", {"stores": [show(x[0].e) for x in b16]})
    if not ok16:
        r4_note("K6:make_ws_frame:len16-order", "%s:%d" % (f.file, f.line), f.name, "16-bit length must be written most significant byte first at header[2], header[3]")
    b64 = forms["b64"]
    ok64 = False
    if b64:
        # loop: i from 56 down to 0 step 8, positions 2..9, value tmp64 >> i & 0xFF
        el = b64[0]
        own = [e2 for e2 in f.blocks[el.bid].elems[:el.idx] if e2.e[0] == "incdec"]
        pairs = set()
        for st in (CF.states_before(own[-1]) if own else []):
            d = dict(st)
            pairs.add((d.get("pos"), d.get("i")))
        ok64 = pairs == set((2 + k, 56 - 8 * k) for k in range(8))
        sh = strip(b64[2])
        # value must be (x >> i) & 0xFF
        try:
            leaf = [q for q in walk(sh) if is_e(q, "var") and q[1] != "i"][0]
            for probe in (0x0102030405060708,):
                for k in range(8):
                    if evalx(sh, {leaf[1]: probe, "i": 56 - 8 * k}) & 0xff != (probe >> (56 - 8 * k)) & 0xff:
                        ok64 = False
        except (EvalError, IndexError):
            ok64 = False
        r4.inst("len64", {"store": show(el.e), "pos_shift_pairs": sorted(pairs, key=str)})
    if not ok64:
        r4_note("K6:make_ws_frame:len64-order", "%s:%d" % (f.file, f.line), f.name, "64-bit length must be written big-endian in header[2..9]")
    adds = list(f.calls("evbuffer_add"))
    okadd = len(adds) == 2 and eq(adds[0].e[2][1], ["var", "header", "local"]) and eq(adds[0].e[2][2], ["var", "pos", "local"]) and \
        eq(adds[1].e[2][1], ["var", f.params[2][0], "param"]) and eq(adds[1].e[2][2], ["var", ln, "param"]) and f.pos_dominates(adds[0].pos(), adds[1].pos())
    r4.inst("emit", {"adds": [show(a.e) for a in adds]})
    if not okadd:
        r4_note("K3:make_ws_frame:emit-order", "%s:%d" % (f.file, f.line), f.name, "the frame must be header[0..pos) followed by the len payload bytes, unmasked")
    # opcode constants used by the senders
    for fname, opc in (("evws_send_text", 1), ("evws_send_binary", 2)):
        g = P.fn(fname)
        c = list(g.calls("evws_send"))
        okc = len(c) == 1 and is_e(strip(c[0].e[2][1]), "int") and strip(c[0].e[2][1])[1] == opc
        r4.inst(fname, {"call": show(c[0].e) if c else None})
        if not okc:
            r4.bad("K6:%s:opcode" % fname, "%s:%d" % (g.file, g.line), fname, "must send opcode %d" % opc)
    g = P.fn("evws_close")
    init = [el for el in g.elems() if el.e[0] == "decl" and el.e[1] == "fr"]
    okc = False
    if init and is_e(init[0].e[3], "ainit"):
        v = [strip(x)[1] if is_e(strip(x), "int") else None for x in init[0].e[3][1]]
        okc = v[:2] == [0x88, 2]
    ht = [el for el in g.calls() if callee_name(el.e) in ("htons", "__bswap_16") or "htons" in (el.mtext or "")]
    sto = [el for el, lhs, op, rhs in g.stores() if is_e(strip(lhs), "deref")]
    add = [el for el in g.calls("evbuffer_add") if is_e(strip(el.e[2][2]), "int") and strip(el.e[2][2])[1] == 4]
    r4.inst("close", {"header_init": show(init[0].e)[:60] if init else None, "code_store": show(sto[0].e)[:80] if sto else None})
    if not (okc and sto and add):
        r4.bad("K6:evws_close:frame", "%s:%d" % (g.file, g.line), g.name, "close frame must be 0x88, 0x02, big-endian status code (4 bytes)")
    elif not any(any(q == "htons" for q in (el.mac or [])) or "htons" in (el.mtext or "") for el in sto) and not ht:
        r4.bad("K6:evws_close:byte-order", sto[0].where(), g.name, "status code is not converted to network byte order")
    rules.append(r4)
    rules.append(rule_frame_eval(P))
    rules.append(rule_sha1_blocks(P))
    rules.append(rule_frame_atomic(P))
    return rules


def rule_sha1_blocks(P):
    """SHA1Update's block arithmetic: for every buffer fill 0..63 and every input length in the domain, the 64-byte blocks handed to SHA1Transform are exactly the
    consecutive blocks of (buffered bytes + input), nothing is skipped or hashed twice, the remainder stays in the buffer, no copy leaves the 64-byte buffer, and the
    bit count advances by 8*len (typed evaluation, uint32 wrap)."""
    r = Rule("C32-sha1-blocks", "K6/K4", "SHA1Update: transformed blocks partition the byte stream in order; remainder buffered; copies inside the 64-byte buffer; bit count", floor=3000)
    f = P.fn("SHA1Update")
    ctx_, data, ln = f.params[0][0], f.params[1][0], f.params[2][0]
    C = ["var", ctx_, "param"]
    kc0 = nkey(["idx", ["fld", C, "SHA1_CTX.count", "->"], ["int", 0]])
    kc1 = nkey(["idx", ["fld", C, "SHA1_CTX.count", "->"], ["int", 1]])
    if not any(is_e(q, "fld") and q[2] == "SHA1_CTX.count" for el in f.elems() for q in walk(el.e)):
        r.brk("SHA1_CTX.count not referenced by SHA1Update")
        return r
    lens = list(range(0, 141)) + [191, 192, 193, 255, 256, 257, 320]
    nb = 0
    for j0 in range(64):
        for n in lens:
            env = {"#typed": 1, ctx_: 1, data: 1000, ln: n, kc0: (j0 * 8) & 0xffffffff, kc1: 0}
            def hook(el, e_):
                nm = callee_name(el.e)
                a = el.e[2]
                def off(x):
                    """offset of a pointer expression into ('buf', k) or ('data', k)"""
                    x = strip(x)
                    if is_e(x, "addr"):
                        y = strip(x[1])
                        if is_e(y, "idx"):
                            b_ = strip(y[1])
                            k = evalx(normx(y[2]), e_, P)
                            if is_e(b_, "fld") and b_[2] == "SHA1_CTX.buffer":
                                return ("buf", k)
                            if is_e(b_, "var") and b_[1] == data:
                                return ("data", k)
                    if is_e(x, "fld") and x[2] == "SHA1_CTX.buffer":
                        return ("buf", 0)
                    if is_e(x, "var") and x[1] == data:
                        return ("data", 0)
                    if is_e(x, "bin") and x[1] == "+":
                        b_ = off(x[2])
                        return (b_[0], b_[1] + evalx(normx(x[3]), e_, P))
                    raise EvalError("pointer expression %s" % show(x))
                try:
                    if nm in ("memcpy", "__builtin_memcpy", "__builtin___memcpy_chk", "__memcpy_chk"):
                        e_["#ops"] = e_.get("#ops", ()) + (("copy", off(a[0]), off(a[1]), evalx(normx(a[2]), e_, P)),)
                        return 0
                    if nm == "SHA1Transform":
                        e_["#ops"] = e_.get("#ops", ()) + (("T", off(a[1])),)
                        return 0
                except EvalError as ex:
                    e_["#err"] = str(ex)
                    return "impure"
                return None
            outs = [o for o in run_all(f, (f.entry, 0), env, lambda el: False, P, hook, max_steps=400) if not (o.kind == "exit" and o.why == "noreturn")]
            if len(outs) != 1 or outs[0].kind not in ("ret", "exit"):
                r.brk("SHA1Update(fill=%d, len=%d) not evaluable: %s" % (j0, n, [(o.kind, o.why, o.env.get("#err")) for o in outs][:2]))
                return r
            o = outs[0]
            # abstract stream: buffered bytes are ('old', k), input bytes ('in', k)
            buf = [("old", k) for k in range(j0)] + [None] * (64 - j0)
            hashed = []
            oob = None
            for op in o.env.get("#ops", ()):
                if op[0] == "copy":
                    _, (dk, do), (sk, so), cnt = op
                    if dk != "buf" or sk != "data" or cnt < 0 or do < 0 or do + cnt > 64 or so < 0 or so + cnt > n:
                        oob = op
                        break
                    for k in range(cnt):
                        buf[do + k] = ("in", so + k)
                else:
                    _, (sk, so) = op
                    if sk == "buf":
                        hashed += buf[:64]
                    else:
                        if so < 0 or so + 64 > n:
                            oob = op
                            break
                        hashed += [("in", so + k) for k in range(64)]
            stream = [("old", k) for k in range(j0)] + [("in", k) for k in range(n)]
            nblk = len(stream) // 64
            want_h = stream[:nblk * 64]
            rem = stream[nblk * 64:]
            c0 = o.env.get(kc0)
            c1 = o.env.get(kc1)
            total = j0 * 8 + n * 8
            ok = oob is None and hashed == want_h and buf[:len(rem)] == rem and c0 == (total & 0xffffffff) and c1 == (total >> 32)
            r.inst((j0, n), {"buffered": j0, "len": n, "blocks_hashed": len(hashed) // 64, "blocks_expected": nblk}, nontrivial=(j0 + n > 63))
            if not ok and nb < 5:
                nb += 1
                why = ("a copy or block read leaves its array: %s" % (oob,)) if oob else ("%d blocks hashed, %d complete blocks in the stream" % (len(hashed) // 64, nblk) if len(hashed) != len(want_h) else
                       ("hashed bytes are not the stream in order" if hashed != want_h else ("the %d remaining bytes are not what is left in the buffer" % len(rem) if buf[:len(rem)] != rem else "bit count %s/%s, expected %d" % (c0, c1, total))))
                r.bad("K6:SHA1Update:block-partition", "%s:%d" % (f.file, f.line), f.name, "with %d bytes buffered and %d bytes of input: %s — the digest of such a message omits or repeats input" % (j0, n, why))
    # the driver hands every input byte to SHA1Update exactly once
    g = P.fn("builtin_SHA1")
    ups = list(g.calls("SHA1Update"))
    r.inst("driver", {"fn": g.name, "update_calls": [u.where() for u in ups]}, nontrivial=False)
    return r
