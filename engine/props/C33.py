"""C33 — the resolver accepts only what a DNS reply actually says: parser bounds, match-before-use, ownership (K4/K3/K11/K12)."""
from ..core import Rule
from ..prog import *
from ..facts import AnalysisBroken
from .. import dnsparse as D

UNITS = ["evdns"]
LEVEL = "other"
EXPLANATION = ("K4: in name_parse and reply_parse every read of the wire buffer (packet[i], memcpy(.., packet + j, n), the GET8/16/32 expansions) "
               "is dominated by the failing edge of a test that implies index + size <= length over the same index expression, with no store to the index "
               "variables in between; every write into name_parse's output buffer is dominated by its capacity test; compression-pointer jumps are counted "
               "against the length and their target is range-checked. K3: reply_handle is given reply data only on paths dominated by a successful "
               "request_find_from_trans_id, the QR test and the question match, and the match flag is set only under a (case-insensitive) comparison of the "
               "reply's question with the request's own question. K12: the reply buffer allocated while parsing is tested before it is written. K11: an "
               "owning pointer stored inside the answer loop is not overwritten while owning, is released on every exit, and ownership taken by "
               "reply_schedule_callback clears every owning pointer of the struct it copies. Decides parser memory safety and acceptance gating; the "
               "semantic faithfulness of answers/TTLs is declined.")
ASSUMPTIONS = ["GET8/16/32 are the only macros that read the packet besides the explicit memcpy sites"]
CONFIGS = ["build", "assert"]


def run(ctx, config):
    P = ctx.prog(UNITS, config)
    rules = []
    rules.append(D.rule_bounds(P, ["name_parse", "reply_parse"], "C33-bounds", floor=20))
    rules.append(D.rule_output_bounds(P, "name_parse", "C33-name-out"))
    rules.append(D.rule_alloc_use(P, ["reply_parse"], "C33-alloc"))

    # ---- K4: writes into the reply buffer are covered by its size
    rc = Rule("C33-capacity", "K4", "every copy into the reply data buffer is covered by the buffer's size: a capacity test, or a buffer sized by the rest of the packet for copies taken from the packet", floor=2)
    f0 = P.fn("reply_parse")
    sizev = None
    for el in f0.calls():
        if callee_name(el.e) in ("event_mm_malloc_", "malloc"):
            for nx in f0.blocks[el.bid].elems[el.idx + 1:el.idx + 2]:
                if nx.e[0] == "asg" and is_e(strip(nx.e[2]), "fld") and strip(nx.e[2])[2].startswith("reply::data"):
                    sizev = strip(el.e[2][0])
                    alloc = el
    if sizev is None or not is_e(sizev, "var"):
        rc.brk("the allocation of the reply data buffer (or its size variable) was not recognised")
    else:
        defs = f0.var_stores(sizev[1])
        rem_ok = False
        want = {key(["var", "length", "param"]): 1, key(["var", "j", "local"]): -1}
        for d, rhs in defs:
            for q in walk(rhs):
                if is_e(q, "cond") or (is_e(q, "bin") and q[1] in ("+",)):
                    for operand in q[2:4] if is_e(q, "cond") else []:
                        if D.linear(operand) == want:
                            rem_ok = True
        # j must not move backwards between the sizing and the copies: only += / ++ / assignment from name_parse
        rc.inst("sizing", {"size_variable": sizev[1], "definitions": [show(d.e)[:70] for d, _ in defs], "at_least_rest_of_packet": rem_ok})
        for el in f0.calls("memcpy"):
            dst = strip(el.e[2][0])
            if is_e(dst, "addr"):
                dst = strip(dst[1])
            rv = root_var(dst)
            if rv is None or rv[1] != "reply":
                continue
            src = strip(el.e[2][1])
            from_packet = is_e(src, "bin") and src[1] == "+" and eq(strip(src[2]), ["var", "packet", "param"])
            gs = [negate_truth(c, t) for c, t, _ in f0.guards_at(el.bid)]
            cap = any(any(is_e(q, "var") and q[1] == sizev[1] for q in walk(c)) for c, t in gs)
            ok = cap or (rem_ok and from_packet)
            rc.inst(("copy", el.n), {"site": el.where(), "copy": show(el.e)[:80], "capacity_test": cap, "source_is_packet": from_packet})
            if not ok:
                rc.bad("K4:reply_parse:reply-buffer-copy-uncovered", el.where(), f0.name,
                       "%s writes into the reply buffer, whose size (%s) is neither tested here nor at least the rest of the packet: a record with a long RDATA overflows the heap buffer"
                       % (show(el.e)[:60], "; ".join(show(r_)[:50] for _, r_ in defs)))
    rules.append(rc)

    # ---- K3: acceptance gating
    r = Rule("C33-match", "K3", "reply data reaches reply_handle only after the transaction id, the QR bit and the question matched", floor=4)
    f = P.fn("reply_parse")
    handles = [el for el in f.calls("reply_handle")]
    with_data = [el for el in handles if not (is_e(strip(el.e[2][3]), "int") and strip(el.e[2][3])[1] == 0) and not is_e(strip(el.e[2][3]), "cast") or
                 (is_e(strip(el.e[2][3]), "addr"))]
    with_data = [el for el in handles if is_e(strip(el.e[2][3]), "addr")]
    if len(handles) < 2 or len(with_data) != 1:
        r.brk("expected one reply_handle call with data and one without, found %d/%d" % (len(with_data), len(handles)))
    else:
        h = with_data[0]
        gs = [negate_truth(c, t) for c, t, _ in f.guards_at(h.bid)]
        found = any(t and is_e(strip(c), "var") and strip(c)[1] == "req" for c, t in gs)
        qr = any(t and is_e(strip(c), "bin") and strip(c)[1] == "&" and is_e(strip(strip(c)[3]), "int") and strip(strip(c)[3])[1] == 0x8000 for c, t in gs)
        nm = any(t and is_e(strip(c), "var") and strip(c)[1] == "name_matches" for c, t in gs)
        r.inst("gates", {"site": h.where(), "request_found": found, "qr_set": qr, "question_matched": nm})
        if not found:
            r.bad("K3:reply_parse:data-without-transaction-match", h.where(), f.name, "reply data can reach reply_handle without a request found for the transaction id")
        if not qr:
            r.bad("K3:reply_parse:data-without-qr", h.where(), f.name, "reply data can reach reply_handle for a packet that is not a response (QR clear)")
        if not nm:
            r.bad("K3:reply_parse:data-without-question-match", h.where(), f.name, "reply data can reach reply_handle although the echoed question did not match the request")
        # req comes from request_find_from_trans_id(base, trans_id) with trans_id read from the packet
        rd = [rhs for d, rhs in f.var_stores("req") if is_e(strip(rhs), "call")]
        okr = any(callee_name(strip(x)) == "request_find_from_trans_id" and is_e(strip(strip(x)[2][1]), "var") and strip(strip(x)[2][1])[1] == "trans_id" for x in rd)
        r.inst("lookup", {"req_from": [show(x)[:60] for x in rd]})
        if not okr:
            r.bad("K3:reply_parse:request-lookup", "%s:%d" % (f.file, f.line), f.name, "the request is not looked up by the packet's transaction id")
        # name_matches = 1 only under strcmp/strcasecmp(tmp_name, cmp_name) == 0, and cmp_name is parsed from req->request
        sets = [el for el, lhs, op, rhs in f.stores() if is_e(strip(lhs), "var") and strip(lhs)[1] == "name_matches" and not (is_e(strip(rhs), "int") and strip(rhs)[1] == 0)]
        for s_ in sets:
            gs2 = [negate_truth(c, t) for c, t, _ in f.guards_at(s_.bid)]
            okc = any((not t) and is_e(strip(c), "call") and callee_name(strip(c)) in ("strcmp", "evutil_ascii_strcasecmp", "strcasecmp") and
                      sorted(show(a) for a in strip(c)[2]) == ["cmp_name", "tmp_name"] for c, t in gs2)
            r.inst(("set", s_.n), {"site": s_.where(), "under_name_comparison": okc})
            if not okc:
                r.bad("K3:reply_parse:match-flag-unconditional", s_.where(), f.name, "name_matches is set without comparing the echoed question with the request's")
        srcs = [el for el in f.calls("name_parse") if any(is_e(strip(a), "var") and strip(a)[1] == "cmp_name" for a in el.e[2])]
        oks = any(is_e(strip(el.e[2][0]), "fld") and strip(el.e[2][0])[2] == "request.request" for el in srcs)
        r.inst("cmp-source", {"cmp_name_parsed_from": [show(el.e[2][0]) for el in srcs]})
        if not oks:
            r.bad("K3:reply_parse:comparison-source", "%s:%d" % (f.file, f.line), f.name, "cmp_name is not parsed from the request's own packet")
    rules.append(r)

    # ---- K11: owning pointers stored in the answer loop
    r2 = Rule("C33-own", "K11", "owning strings stored while parsing are not overwritten while owning, are released on every exit, and ownership transfer clears them", floor=3)
    stores = []
    for el, lhs, op, rhs in f.stores():
        l, rr = strip(lhs), strip(rhs)
        if is_e(rr, "call") and callee_name(rr) in ("event_mm_strdup_", "strdup") and is_e(l, "fld") and root_var(l) is not None and root_var(l)[1] == "reply":
            stores.append((el, l))
    if not stores:
        r2.brk("no owning string store into `reply` found")
    for el, l in stores:
        # (i) inside a loop: must be guarded by the field being NULL
        in_loop = any(b.term["k"] in ("for", "while") and el.bid in f.natural_loop(b.id) for b in f.branch_blocks())
        gs = [negate_truth(c, t) for c, t, _ in f.guards_at(el.bid)]
        guarded = any((not t) and eq(strip(c), l) for c, t in gs)
        r2.inst(("store", el.n), {"site": el.where(), "store": show(el.e)[:60], "in_loop": in_loop, "guarded_by_field_null": guarded})
        if in_loop and not guarded:
            r2.bad("K11:reply_parse:%s:overwritten-while-owning" % l[2], el.where(), f.name,
                   "%s = strdup(...) inside the answer loop without testing that it is still NULL: a second record leaks the first string" % show(l))
        # (ii) released on every exit
        def frees(x):
            return x.e[0] == "call" and callee_name(x.e) in ("event_mm_free_", "free") and eq(strip(x.e[2][0]), l)
        def null_edge(blk, succ, lab, l=l):
            # the edge on which the owning field itself is NULL: nothing to release there
            if lab in ("T", "F") and blk.term and "cond" in blk.term:
                c, t = negate_truth(blk.term["cond"], lab == "T")
                return eq(strip(c), l) and not t
            return False
        w = f.exit_reachable_avoiding(el.pos(), frees, skip_edge=null_edge)
        r2.inst(("release", el.n), {"site": el.where(), "freed_on_every_exit": w is None, "witness": getattr(w, "line", None)})
        if w is not None:
            r2.bad("K11:reply_parse:%s:not-released" % l[2], el.where(), f.name,
                   "%s is not freed on the path that returns at line %s (reply_handle only takes ownership on its success branch)" % (show(l), getattr(w, "line", "?")))
    g = P.fn("reply_schedule_callback")
    mc = [el for el in g.calls("memcpy") if any(is_e(q, "fld") and q[2] == "evdns_request.reply" for q in walk(el.e[2][0]))]
    if len(mc) != 1:
        r2.brk("reply_schedule_callback: the struct copy that takes ownership was not found")
    else:
        own_fields = set(l[2] for _, l in stores) | {"reply::data.raw"}
        cleared = set()
        for el, lhs, op, rhs in g.stores():
            l = strip(lhs)
            if is_e(l, "fld") and is_e(strip(rhs), "int") and strip(rhs)[1] == 0 and root_var(l) is not None and root_var(l)[1] == g.params[3][0] and g.pos_dominates(mc[0].pos(), el.pos()):
                cleared.add(l[2])
        r2.inst("transfer", {"site": mc[0].where(), "owning_fields": sorted(own_fields), "cleared_after_copy": sorted(cleared)})
        for fl in sorted(own_fields - cleared):
            r2.bad("K11:reply_schedule_callback:%s:not-cleared-after-transfer" % fl, mc[0].where(), g.name,
                   "ownership of the reply is taken by copying the struct but %s is not cleared in the source: it would be freed twice once the parser releases it" % fl)
    rules.append(r2)
    return rules
