"""C39 — resolver configuration: the option table (documentation vs code, one field per option, class gating, malformed values change nothing) and the resolv.conf line dispatcher, by evaluation on abstract strings and an abstract evdns_base (K6/K7)."""
import os
import re
from ..core import Rule
from ..prog import *
from ..prog import PStr, PPtr, PRef
from ..facts import AnalysisBroken, REPO
from ..interp import normx, nkey, run_all
from ..chunked import strtoll_model

UNITS = ["evdns", "evutil"]
LEVEL = "other"
CONFIGS = ["build", "assert"]
EXPLANATION = (
    "Clauses of the configuration property that are decisions of the code itself. "
    "T (table agreement): the option names listed in the documentation of evdns_base_set_option (include/event2/dns.h) are exactly the names evdns_base_set_option_impl recognises. "
    "O (options): evdns_base_set_option_impl is evaluated on an abstract evdns_base for every recognised option x {well-formed value, zero, junk, trailing junk} x every subset class "
    "of the flags argument: a well-formed value changes exactly the option's own field (clipped to the bounds the code documents) and only when the option's class "
    "(DNS_OPTION_SEARCH / MISC / NAMESERVERS) is enabled; a malformed value is refused with -1 and changes nothing; a disabled class changes nothing and is not an error. "
    "L (lines): resolv_conf_parse_line is evaluated on the directive forms of resolv.conf(5) (nameserver, domain, search with several domains, options with several settings, "
    "comments, unknown directives, missing arguments, leading white space) under every flags class: it performs exactly the documented actions (which nameserver is added, which "
    "domains in which order, which option/value pairs reach the option table) and nothing for malformed or unknown lines. "
    "D (search domains): search_postfix_add is evaluated on domains with 0..3 leading dots placed at the very end of the caller's buffer: the stored postfix is the text without the dots, the "
    "recorded length is its own, the copy reads nothing behind the terminator and stays inside the block it allocated. "
    "Declined: memory safety of the file reader on arbitrary bytes, the hosts file, evutil_parse_sockaddr_port (C40), equality with a reference parser on all inputs.")
ASSUMPTIONS = ["strtol/strtod behave as in C (modelled)", "strtok_r splits at runs of the delimiter characters (modelled)"]

CLASS = {"SEARCH": 1, "NAMESERVERS": 2, "MISC": 4}


def documented_options():
    txt = open(os.path.join(REPO, "include/event2/dns.h")).read()
    m = re.search(r"The currently available configuration options are:\s*\n(.*?)\n\s*\*?\s*\n\s*- ", txt, re.S)
    if not m:
        m = re.search(r"The currently available configuration options are:(.*?)\n\s*\n", txt, re.S)
    if not m:
        return None
    names = re.findall(r"[a-z][a-z\-]+", m.group(1))
    return set(names)


def code_options(P):
    f = P.fn("evdns_base_set_option_impl")
    out = []
    for el in f.calls("str_matches_option"):
        a = strip(el.e[2][1])
        if is_e(a, "str"):
            out.append(a[1])
    return out


def strtod_prefix(t):
    m = re.match(rb"^[ \t\n\v\f\r]*[+-]?(\d+\.?\d*([eE][+-]?\d+)?|\.\d+([eE][+-]?\d+)?)", t)
    if not m:
        return 0.0, 0
    return float(m.group(0)), m.end()


def base_env():
    env = {("@", "base", "#zero"): 1, ("@", "base", "evdns_base.lock"): 0}
    for fl in ("global_timeout", "global_nameserver_probe_initial_timeout", "global_tcp_idle_timeout", "global_getaddrinfo_allow_skew"):
        sub = ("sub", "base", "evdns_base.%s" % fl)
        env[("@", "base", "evdns_base.%s" % fl)] = PPtr(sub)
        env[("@", sub, "timeval.tv_sec")] = 5
        env[("@", sub, "timeval.tv_usec")] = 0
    for fl, v in (("global_max_retransmits", 3), ("global_max_nameserver_timeout", 3), ("global_randomize_case", 1), ("global_max_udp_size", 512), ("global_tcp_flags", 0), ("so_rcvbuf", 0),
                  ("so_sndbuf", 0), ("ns_max_probe_timeout", 3600), ("ns_timeout_backoff_factor", 3), ("global_search_state", PPtr("ss")), ("global_outgoing_addrlen", 0),
                  ("global_max_requests_inflight", 64)):
        env[("@", "base", "evdns_base.%s" % fl)] = v
    env[("@", "ss", "search_state.ndots")] = 1
    env[("@", "ss", "#zero")] = 1
    return env


def snapshot(env):
    return dict((k, v) for k, v in env.items() if isinstance(k, tuple) and len(k) == 3 and k[0] == "@" and not (isinstance(k[2], str) and k[2].startswith("#")))


def make_hook(P):
    def hook(el, e_):
        n = callee_name(el.e)
        a = el.e[2]
        try:
            if n in ("strtol", "strtoul"):
                p = evalx(normx(a[0]), e_, P)
                if not isinstance(p, PStr):
                    return "impure"
                v, used = strtoll_model(p.text(), evalx(normx(a[2]), e_, P))
                endp = strip(a[1])
                if is_e(endp, "addr") and is_e(strip(endp[1]), "var"):
                    e_[strip(endp[1])[1]] = p + used
                return v
            if n == "strtod":
                p = evalx(normx(a[0]), e_, P)
                if not isinstance(p, PStr):
                    return "impure"
                v, used = strtod_prefix(p.text())
                endp = strip(a[1])
                if is_e(endp, "addr") and is_e(strip(endp[1]), "var"):
                    e_[strip(endp[1])[1]] = p + used
                return float(v)
            if n in ("evdns_log_", "evthread_is_debug_lock_held_"):
                return 0
            if n == "search_state_new":
                return PPtr("ss")
            if n == "evdns_base_set_max_requests_inflight":
                e_[("@", "base", "evdns_base.global_max_requests_inflight")] = evalx(normx(a[1]), e_, P)
                return 0
            if n == "evutil_parse_sockaddr_port":
                p = evalx(normx(a[0]), e_, P)
                ok = isinstance(p, PStr) and re.match(rb"^\d+\.\d+\.\d+\.\d+(:\d+)?$", p.text())
                if ok:
                    e_[("@", "base", "evdns_base.global_outgoing_address")] = ("addr", p.text())
                return 0 if ok else -1
            if n in ("memcpy", "__builtin_memcpy", "__builtin___memcpy_chk"):
                d, s_ = strip(a[0]), strip(a[1])
                if is_e(d, "addr") and is_e(strip(d[1]), "fld") and is_e(s_, "addr") and is_e(strip(s_[1]), "var"):
                    tgt = evalx(normx(strip(d[1])), e_, P)
                    if isinstance(tgt, PPtr):
                        sv = strip(s_[1])
                        for fl in ("timeval.tv_sec", "timeval.tv_usec"):
                            e_[("@", tgt.id, fl)] = e_.get(nkey(["fld", sv, fl, "."]))
                        return 0
                return "impure"
            if n in ("str_matches_option", "strtoint", "strtoint_clipped", "evdns_strtotimeval"):
                return "call"
        except EvalError as ex:
            e_["#err"] = str(ex)
            return "impure"
        return None
    return hook


# option -> (class, kind, field or sub-field, clip range or None)
TABLE = {
    "ndots": ("SEARCH", "int", ("ss", "search_state.ndots"), None),
    "timeout": ("MISC", "tv", "global_timeout", None),
    "getaddrinfo-allow-skew": ("MISC", "tv", "global_getaddrinfo_allow_skew", None),
    "max-timeouts": ("MISC", "int", "global_max_nameserver_timeout", (1, 255)),
    "max-inflight": ("MISC", "int", "global_max_requests_inflight", (1, 65000)),
    "attempts": ("MISC", "int", "global_max_retransmits", (None, 255)),
    "randomize-case": ("MISC", "int", "global_randomize_case", None),
    "bind-to": ("NAMESERVERS", "addr", "global_outgoing_address", None),
    "initial-probe-timeout": ("MISC", "tv", "global_nameserver_probe_initial_timeout", (None, 3600)),
    "max-probe-timeout": ("MISC", "int", "ns_max_probe_timeout", (1, 3600)),
    "probe-backoff-factor": ("MISC", "int", "ns_timeout_backoff_factor", (1, 10)),
    "so-rcvbuf": ("MISC", "int", "so_rcvbuf", None),
    "so-sndbuf": ("MISC", "int", "so_sndbuf", None),
    "tcp-idle-timeout": ("MISC", "tv", "global_tcp_idle_timeout", None),
    "use-vc": ("MISC", "flag", "global_tcp_flags", None),
    "ignore-tc": ("MISC", "flag", "global_tcp_flags", None),
    "edns-udp-size": ("MISC", "int", "global_max_udp_size", None),
}


def rule_table(P):
    r = Rule("C39-table", "K7", "documented option names == option names the code recognises == the rule's table", floor=3)
    doc = documented_options()
    code = [c.rstrip(":") for c in code_options(P)]
    if doc is None:
        r.brk("list of options not found in the documentation of evdns_base_set_option (include/event2/dns.h)")
        return r
    f = P.fn("evdns_base_set_option_impl")
    r.inst("doc", {"documented": sorted(doc)})
    r.inst("code", {"recognised": sorted(code)})
    r.inst("rule", {"table": sorted(TABLE)})
    for n in sorted(set(code) - doc):
        r.bad("K7:evdns_base_set_option:undocumented:%s" % n, "%s:%d" % (f.file, f.line), f.name, "option %r is recognised by the code but not listed in the documentation of evdns_base_set_option" % n)
    for n in sorted(doc - set(code)):
        r.bad("K7:evdns_base_set_option:documented-not-recognised:%s" % n, "%s:%d" % (f.file, f.line), f.name, "option %r is documented but the code does not recognise it (it would be accepted and silently ignored)" % n)
    if len(code) != len(set(code)):
        r.bad("K7:evdns_base_set_option:duplicate", "%s:%d" % (f.file, f.line), f.name, "an option name is tested twice: the second branch is dead")
    if set(code) != set(TABLE):
        r.brk("the rule's option table does not cover the code's options: %s" % sorted(set(code) ^ set(TABLE)))
    return r


def rule_options(P):
    r = Rule("C39-options", "K6", "each option changes exactly its own field, only when its class is enabled; malformed values are refused and change nothing", floor=150)
    f = P.fn("evdns_base_set_option_impl")
    hook = make_hook(P)
    nb = 0
    vals = {"int": [(b"5", 5), (b"0", 0), (b"300", 300), (b"abc", None), (b"5x", None), (b"100000", 100000)],
            "tv": [(b"5", (5, 0)), (b"2.5", (2, 500000)), (b"abc", None), (b"5x", None), (b"0", None), (b"-1", None), (b"7200", (7200, 0))],
            "addr": [(b"10.0.0.1", "ok"), (b"10.0.0.1:53", "ok"), (b"nonsense", None)],
            "flag": [(b"", "set"), (b"1", None)]}
    for opt, (cls, kind, field, clip) in TABLE.items():
        for spelled in (opt, opt + ":"):
            for text, parsed in vals[kind]:
                for flags in (7, CLASS[cls], 7 & ~CLASS[cls], 0):
                    env = base_env()
                    before = snapshot(env)
                    env.update({"#typed": 1, "event_debug_logging_mask_": 0, f.params[0][0]: PPtr("base"), f.params[1][0]: PStr(spelled.encode()), f.params[2][0]: PStr(text), f.params[3][0]: flags})
                    outs = [o for o in run_all(f, (f.entry, 0), env, lambda el: False, P, hook, max_steps=3000) if not (o.kind == "exit" and o.why == "noreturn")]
                    for o in outs:
                        if o.kind != "ret":
                            r.brk("evdns_base_set_option_impl(%r, %r): %s %s %s" % (spelled, text, o.kind, o.why, o.env.get("#err", "")))
                            return r
                        try:
                            rv = tevalx(normx(o.at.e[1]), o.env, P, f)
                        except EvalError as ex:
                            r.brk("evdns_base_set_option_impl(%r, %r): return value %s" % (spelled, text, ex))
                            return r
                        after = snapshot(o.env)
                        changed = dict((k, v) for k, v in after.items() if before.get(k) != v)
                        enabled = bool(flags & CLASS[cls])
                        # expectation
                        if parsed is None and kind != "flag":
                            want_rv, want_changed = -1, {}
                        elif kind == "flag" and parsed is None:
                            want_rv, want_changed = (-1 if enabled else 0), {}
                        elif not enabled:
                            want_rv, want_changed = 0, {}
                        else:
                            want_rv = 0
                            if kind == "int":
                                v = parsed
                                if clip:
                                    lo, hi = clip
                                    if lo is not None and v < lo:
                                        v = lo
                                    if hi is not None and v > hi:
                                        v = hi
                                if opt == "edns-udp-size":
                                    v = None       # bounds are build constants: only "own field" is checked
                                cell = ("@", field[0], field[1]) if isinstance(field, tuple) else ("@", "base", "evdns_base.%s" % field)
                                want_changed = {cell: v}
                            elif kind == "tv":
                                sec, usec = parsed
                                if clip and clip[1] is not None and sec > clip[1]:
                                    sec = clip[1]
                                sub = ("sub", "base", "evdns_base.%s" % field)
                                want_changed = {("@", sub, "timeval.tv_sec"): sec, ("@", sub, "timeval.tv_usec"): usec}
                            elif kind == "addr":
                                want_changed = {("@", "base", "evdns_base.global_outgoing_address"): None, ("@", "base", "evdns_base.global_outgoing_addrlen"): None}
                            else:
                                want_changed = {("@", "base", "evdns_base.global_tcp_flags"): None}
                        ok = rv == want_rv and set(changed) <= set(want_changed)
                        if kind == "addr" and not enabled and not changed and rv in (0, -1):
                            ok = True       # bind-to tests its class before it looks at the value: both answers leave the state alone
                        for k, v in want_changed.items():
                            if v is not None and after.get(k) != v:
                                # unchanged because the new value equals the old one is fine
                                ok = False
                        if opt == "max-probe-timeout" and enabled and parsed is not None:
                            # documented side effect: lowers initial-probe-timeout when that is larger
                            sub = ("sub", "base", "evdns_base.global_nameserver_probe_initial_timeout")
                            extra = set(changed) - set(want_changed)
                            ok = rv == 0 and extra <= {("@", sub, "timeval.tv_sec"), ("@", sub, "timeval.tv_usec")} and after.get(("@", "base", "evdns_base.ns_max_probe_timeout")) == want_changed[("@", "base", "evdns_base.ns_max_probe_timeout")]
                        r.inst((spelled, text, flags), {"option": spelled, "value": text.decode(), "flags": flags, "returns": rv, "changed": sorted("%s.%s" % (str(k[1]), k[2]) for k in changed)})
                        if not ok and nb < 8:
                            nb += 1
                            r.bad("K6:evdns_base_set_option_impl:%s" % opt, "%s:%d" % (f.file, f.line), f.name,
                                  "option %r value %r flags %d: returns %r and changes %s; expected return %r and %s" % (
                                      spelled, text, flags, rv, dict(("%s.%s" % (str(k[1]), k[2]), v) for k, v in changed.items()), want_rv,
                                      ("no change" if not want_changed else dict(("%s.%s" % (str(k[1]), k[2]), v) for k, v in want_changed.items()))))
    return r


def rule_lines(P):
    r = Rule("C39-lines", "K6", "resolv.conf lines: each directive performs exactly its documented action under the enabled classes; malformed and unknown lines do nothing", floor=40)
    f = P.fn("resolv_conf_parse_line")
    nb = 0
    ALL = 7
    lines = [
        (b"nameserver 10.0.0.1", [("ns", b"10.0.0.1")], "NAMESERVERS"),
        (b"nameserver\t10.0.0.1   extra", [("ns", b"10.0.0.1")], "NAMESERVERS"),
        (b"  nameserver 10.0.0.2", [("ns", b"10.0.0.2")], "NAMESERVERS"),
        (b"nameserver", [], "NAMESERVERS"),
        (b"domain example.com", [("clear",), ("add", b"example.com")], "SEARCH"),
        (b"domain", [], "SEARCH"),
        (b"search a.com b.com  c.com", [("clear",), ("add", b"a.com"), ("add", b"b.com"), ("add", b"c.com"), ("reverse",)], "SEARCH"),
        (b"search", [("clear",), ("reverse",)], "SEARCH"),
        (b"options ndots:3 timeout:2.5", [("opt", b"ndots:3", b"3"), ("opt", b"timeout:2.5", b"2.5")], None),
        (b"options rotate", [("opt", b"rotate", b"")], None),
        (b"options", [], None),
        (b"# nameserver 10.0.0.9", [], None),
        (b"; comment", [], None),
        (b"sortlist 10.0.0.0/8", [], None),
        (b"nameserverx 10.0.0.1", [], None),
        (b"", [], None),
        (b"   ", [], None),
    ]
    for text, actions, cls in lines:
        for flags in (ALL, 1, 2, 4, 0):
            env = {"#typed": 1, "event_debug_logging_mask_": 0, f.params[0][0]: PPtr("base"), f.params[1][0]: PStr(text), f.params[2][0]: flags, ("@", "base", "#zero"): 1, "delims": PStr(b" \t"),
                   ("@", "base", "evdns_base.lock"): 0, "#acts": ()}

            def hook(el, e_):
                n = callee_name(el.e)
                a = el.e[2]
                try:
                    if n in ("strtok_r", "__strtok_r"):
                        s0 = evalx(normx(a[0]), e_, P)
                        dl = evalx(normx(a[1]), e_, P).text()
                        st = strip(a[2])
                        sv = strip(st[1])[1] if is_e(st, "addr") and is_e(strip(st[1]), "var") else None
                        if sv is None:
                            return "impure"
                        src = s0 if isinstance(s0, PStr) else e_.get(sv)
                        if not isinstance(src, PStr):
                            return 0
                        t = src.text()
                        i = 0
                        while i < len(t) and t[i] in dl:
                            i += 1
                        if i >= len(t):
                            e_[sv] = PStr(b"")
                            return 0
                        j = i
                        while j < len(t) and t[j] not in dl:
                            j += 1
                        e_[sv] = PStr(t[j + 1:]) if j < len(t) else PStr(b"")
                        return PStr(t[i:j])
                    if n == "evdns_base_nameserver_ip_add":
                        e_["#acts"] = e_["#acts"] + (("ns", evalx(normx(a[1]), e_, P).text()),)
                        return 0
                    if n == "search_postfix_clear":
                        e_["#acts"] = e_["#acts"] + (("clear",),)
                        return 0
                    if n == "search_postfix_add":
                        e_["#acts"] = e_["#acts"] + (("add", evalx(normx(a[1]), e_, P).text()),)
                        return 0
                    if n == "search_reverse":
                        e_["#acts"] = e_["#acts"] + (("reverse",),)
                        return 0
                    if n == "evdns_base_set_option_impl":
                        o_, v_, fl_ = evalx(normx(a[1]), e_, P), evalx(normx(a[2]), e_, P), evalx(normx(a[3]), e_, P)
                        e_["#acts"] = e_["#acts"] + (("opt", o_.text(), v_.text() if isinstance(v_, PStr) else None, fl_),)
                        return 0
                    if n == "evthread_is_debug_lock_held_":
                        return 0
                except EvalError as ex:
                    e_["#err"] = str(ex)
                    return "impure"
                return None
            outs = [o for o in run_all(f, (f.entry, 0), env, lambda el: False, P, hook, max_steps=1500) if not (o.kind == "exit" and o.why == "noreturn")]
            for o in outs:
                if o.kind == "unknown":
                    r.brk("resolv_conf_parse_line(%r): %s %s" % (text, o.why, o.env.get("#err", "")))
                    return r
                got = o.env["#acts"]
                if cls is None:
                    want = tuple(("opt", a_[1], a_[2], flags) if a_[0] == "opt" else a_ for a_ in actions)
                else:
                    want = tuple(actions) if flags & CLASS[cls] else ()
                r.inst((text, flags), {"line": text.decode(), "flags": flags, "actions": [list(map(lambda z: z.decode() if isinstance(z, bytes) else z, a_)) for a_ in got]}, nontrivial=bool(want))
                if tuple(got) != want and nb < 6:
                    nb += 1
                    r.bad("K6:resolv_conf_parse_line:%s" % (text.split()[0].decode() if text.split() else "blank"), "%s:%d" % (f.file, f.line), f.name,
                          "line %r with flags %d performs %s; resolv.conf(5) / the documented classes give %s" % (text, flags, list(got), list(want)))
    return r


def rule_names(P):
    """str_matches_option: a token names an option iff it is the option's name, or the name followed by ':' and anything"""
    r = Rule("C39-names", "K6", "an option token is recognised iff it is exactly the option's name or 'name:' followed by anything (no prefixes, no name followed by other characters)", floor=100)
    f = P.fn("str_matches_option")
    names = sorted(code_options(P))
    if len(names) < 10:
        r.brk("option names not found in the code (%d)" % len(names))
        return r
    for full in names:
        bare = full.rstrip(":")
        forms = [bare, bare + ":", bare + ":3", bare + ":junk more", bare + "5", bare + ";", bare + "x:3", bare[:-1], bare[:-1] + ":", bare[:-1] + ":3", "", ":", bare.upper() + ":", "x" + bare, bare + "::"]
        for tok in forms:
            env = {"#typed": 1, f.params[0][0]: PStr(tok.encode()), f.params[1][0]: PStr(full.encode())}
            vals = set()
            for o in run_all(f, (f.entry, 0), env, lambda el: False, P, lambda el, e_: None, max_steps=400):
                if o.kind == "exit" and o.why == "noreturn":
                    continue
                if o.kind != "ret":
                    r.brk("str_matches_option(%r, %r): %s %s" % (tok, full, o.kind, o.why))
                    return r
                try:
                    vals.add(bool(tevalx(normx(o.at.e[1]), o.env, P, f)))
                except EvalError as ex:
                    r.brk("str_matches_option(%r, %r): %s" % (tok, full, ex))
                    return r
            want = tok == bare or tok.startswith(bare + ":")
            r.inst((full, tok), {"option": full, "token": tok, "matches": sorted(vals), "documented": want})
            if vals != {want}:
                r.bad("K6:str_matches_option:%s" % ("accepts-junk" if not want else "misses"), "%s:%d" % (f.file, f.line), f.name,
                      "token %r against option %r: %s; an option is named by %r or by %r followed by its value" % (tok, full, "matches" if True in vals else "does not match", bare, bare + ":"))
    seen, uniq = set(), []
    for f_ in r.findings:
        if f_.key not in seen:
            seen.add(f_.key)
            uniq.append(f_)
    r.findings = uniq
    return r


def strtok_mem(e_, sp, delims, statevar):
    """strtok_r on the byte memory: -> token address or 0; writes the terminator; keeps the continuation in e_[statevar]"""
    if not sp:
        sp = e_.get(statevar)
        if not sp:
            return 0
    p = sp
    while True:
        b = e_.get(("m", p))
        if b is None:
            e_["#oob"] = "strtok_r reads byte %d behind the line" % p
            return 0
        if b == 0:
            e_[statevar] = p
            return 0
        if b not in delims:
            break
        p += 1
    tok = p
    while True:
        b = e_.get(("m", p))
        if b is None:
            e_["#oob"] = "strtok_r reads byte %d behind the line" % p
            return 0
        if b == 0:
            e_[statevar] = p
            return tok
        if b in delims:
            e_[("m", p)] = 0
            e_[statevar] = p + 1
            return tok
        p += 1


def ref_hosts_line(t):
    """hosts(5): IP-address name [alias ...]; '#' starts a comment -> (address, [names]) or None when the line adds nothing"""
    t = t.split(b"#", 1)[0]
    toks = t.split()
    if not toks:
        return None
    ad = toks[0]
    v4 = re.match(rb"^\d+\.\d+\.\d+\.\d+$", ad)
    v6 = b":" in ad and re.match(rb"^[0-9a-fA-F:]+$", ad)
    if not (v4 or v6):
        return None
    return ad, toks[1:]


def rule_hosts(P):
    """evdns_base_parse_hosts_line on hosts(5) line forms in byte memory (it cuts the line in place)"""
    from ..cmem import MEM0, mem_put, mem_str, mem_hook
    r = Rule("C39-hosts", "K6", "a hosts line adds exactly its names (up to a comment) for its address, nothing for comments, blank lines, bad addresses and addresses with a port; names are copied whole into blocks of their size", floor=14)
    f = P.fn("evdns_base_parse_hosts_line")
    lines = [b"127.0.0.1 localhost", b"127.0.0.1\tlocalhost  lh  loopback", b"  10.0.0.1 a.example", b"::1 ip6-localhost ip6-loopback", b"# comment", b"", b"   ", b"10.0.0.1", b"10.0.0.1 a #c", b"10.0.0.1 a#c b",
             b"10.0.0.1 #c a", b"10.0.0.1 a b#", b"bogus name", b"10.0.0.1:53 name", b"10.0.0.1 a # b c", b"#10.0.0.1 a", b"10.0.0.1 a\t\tb \t", b"fe80::1 x"]
    slack = set()
    for line in lines:
        env = {"#typed": 1, "#bytemem": 1, "event_debug_logging_mask_": 0, f.params[0][0]: PPtr("base"), ("@", "base", "#zero"): 1, ("@", "base", "evdns_base.lock"): 0, f.params[1][0]: MEM0, "delims": PStr(b" \t"),
               "#names": ()}
        mem_put(env, MEM0, line)

        def extra(el, e_):
            n = callee_name(el.e)
            a = el.e[2]
            if n in ("strtok_r", "__strtok_r"):
                s0 = evalx(normx(a[0]), e_, P)
                dl = evalx(normx(a[1]), e_, P).text()
                st = strip(a[2])
                if not (is_e(st, "addr") and is_e(strip(st[1]), "var")):
                    return "impure"
                return strtok_mem(e_, s0 if isinstance(s0, int) and not isinstance(s0, bool) else 0, dl, "#tok:" + strip(st[1])[1])
            if n == "evthread_is_debug_lock_held_":
                return 1
            if n == "evutil_parse_sockaddr_port":
                ad = mem_str(e_, evalx(normx(a[0]), e_, P)) or b""
                lenp = strip(a[2])
                lv = strip(lenp[1])[1] if is_e(lenp, "addr") and is_e(strip(lenp[1]), "var") else None
                if lv is None:
                    return "impure"
                e_["#addr"] = ad
                if re.match(rb"^\d+\.\d+\.\d+\.\d+(:\d+)?$", ad):
                    e_[lv] = 16
                    e_["#port"] = 1 if b":" in ad else 0
                    return 0
                if b":" in ad and re.match(rb"^[0-9a-fA-F:]+$", ad):
                    e_[lv] = 28
                    e_["#port"] = 0
                    return 0
                return -1
            if n == "sockaddr_getport":
                return e_.get("#port", 0)
            if n == "memset":
                return 0
            if n in ("memcpy", "__builtin_memcpy", "__builtin___memcpy_chk") and "hostname" in show(a[0]):
                sp, cnt = evalx(normx(a[1]), e_, P), evalx(normx(a[2]), e_, P)
                if any(e_.get(("m", sp + k)) is None for k in range(cnt)):
                    e_["#oob"] = "copies %d bytes of the name from %d: behind the line" % (cnt, sp)
                data = bytes(e_.get(("m", sp + k), 0x3f) for k in range(cnt))
                e_["#names"] = e_["#names"] + ((data, cnt, e_["#blocks"][-1][1] if e_.get("#blocks") else -1),)
                return 0
            return None
        outs = [o for o in run_all(f, (f.entry, 0), env, lambda el: False, P, mem_hook(P, extra), max_steps=6000) if not (o.kind == "exit" and o.why == "noreturn")]
        want = ref_hosts_line(line)
        for o in outs:
            if o.kind != "ret":
                r.brk("evdns_base_parse_hosts_line(%r): %s %s %s" % (line, o.kind, o.why, o.env.get("#err", "")))
                return r
            names = o.env["#names"]
            got = [d[:-1] for d, c, sz in names]
            r.inst(line, {"line": line.decode(), "address": (o.env.get("#addr") or b"").decode(), "names_added": [g.decode("latin-1") for g in got]})
            bad = None
            if o.env.get("#oob"):
                bad = ("out-of-bounds", o.env["#oob"])
            elif got != (want[1] if want else []):
                bad = ("names", "adds %s; hosts(5): %s" % (got, want[1] if want else "nothing"))
            elif want and names and o.env.get("#addr") != want[0]:
                bad = ("address", "address token %r, hosts(5): %r" % (o.env.get("#addr"), want[0]))
            else:
                for d, c, sz in names:
                    if not d.endswith(b"\0") or c != len(d):
                        bad = ("terminator", "name %r copied without its terminator" % d)
                    slack.add(sz - c)
            if bad:
                r.bad("K6:evdns_base_parse_hosts_line:%s" % bad[0], "%s:%d" % (f.file, f.line), f.name, "line %r: %s" % (line, bad[1]))
    if len(slack) > 1:
        r.bad("K6:evdns_base_parse_hosts_line:block-size", "%s:%d" % (f.file, f.line), f.name, "the block allocated for an entry does not grow with the name it holds (size minus bytes copied takes the values %s)" % sorted(slack))
    seen, uniq = set(), []
    for f_ in r.findings:
        if f_.key not in seen:
            seen.add(f_.key)
            uniq.append(f_)
    r.findings = uniq
    return r


FILES = [b"", b"a", b"a\n", b"a\nb", b"a\nb\n", b"\n", b"\n\n", b"a\n\nb", b"nameserver 1.2.3.4\nsearch x y\n", b"a #c\n#d", b"x\n" * 5]


def rule_files(P):
    """the two file readers: every line of the file, in order, once, each as a terminated string inside the buffer; the buffer is released once"""
    from ..cmem import MEM0, mem_put, mem_str, mem_hook
    r = Rule("C39-files", "K6", "resolv.conf and hosts readers hand every line of the file to the line parser, in order, once, inside the buffer, and free the buffer once", floor=20)
    for fname, linefn in (("evdns_base_resolv_conf_parse_impl", "resolv_conf_parse_line"), ("evdns_base_load_hosts_impl", "evdns_base_parse_hosts_line")):
        f = P.fn(fname)
        for content in FILES:
            env = {"#typed": 1, "#bytemem": 1, "event_debug_logging_mask_": 0, f.params[0][0]: PPtr("base"), ("@", "base", "#zero"): 1, ("@", "base", "evdns_base.lock"): 0, "#lines": (), "#freed": ()}
            if fname.endswith("parse_impl"):
                env[f.params[1][0]] = 0
                env[f.params[2][0]] = PStr(b"/etc/resolv.conf")
                env[("@", "base", "evdns_base.server_head")] = PPtr("ns")
            else:
                env[f.params[1][0]] = PStr(b"/etc/hosts")

            def extra(el, e_):
                n = callee_name(el.e)
                a = el.e[2]
                if n == "evutil_read_file_":
                    mem_put(e_, MEM0, content)
                    outp, lenp = strip(a[1]), strip(a[2])
                    if not (is_e(outp, "addr") and is_e(strip(outp[1]), "var") and is_e(lenp, "addr") and is_e(strip(lenp[1]), "var")):
                        return "impure"
                    e_[strip(outp[1])[1]] = MEM0
                    e_[strip(lenp[1])[1]] = len(content)
                    return 0
                if n == linefn:
                    sp = evalx(normx(a[1]), e_, P)
                    t = mem_str(e_, sp) if isinstance(sp, int) and MEM0 <= sp <= MEM0 + len(content) else None
                    e_["#lines"] = e_["#lines"] + (t,)
                    return 0
                if n == "event_mm_free_":
                    e_["#freed"] = e_["#freed"] + (evalx(normx(a[0]), e_, P),)
                    return 0
                if n == "evthread_is_debug_lock_held_":
                    return 1
                if n in ("evdns_log_", "search_set_from_hostname", "evdns_resolv_set_defaults"):
                    return 0
                return None
            outs = [o for o in run_all(f, (f.entry, 0), env, lambda el: False, P, mem_hook(P, extra), max_steps=6000) if not (o.kind == "exit" and o.why == "noreturn")]
            want = tuple(content.split(b"\n"))
            for o in outs:
                if o.kind != "ret":
                    r.brk("%s(%r): %s %s %s" % (fname, content, o.kind, o.why, o.env.get("#err", "")))
                    return r
                got = o.env["#lines"]
                r.inst((fname, content), {"reader": fname, "file": content.decode(), "lines": [None if x is None else x.decode() for x in got], "freed": list(o.env["#freed"])})
                bad = None
                if o.env.get("#oob"):
                    bad = ("out-of-bounds", o.env["#oob"])
                elif None in got:
                    bad = ("line-outside-buffer", "a line handed to %s does not lie inside the file buffer / is not terminated inside it" % linefn)
                elif got != want:
                    bad = ("lines", "lines handed to %s: %s; the file's lines: %s" % (linefn, list(got), list(want)))
                elif list(o.env["#freed"]) != [MEM0]:
                    bad = ("buffer-release", "the file buffer is freed %s" % (list(o.env["#freed"]) or "never"))
                if bad:
                    r.bad("K6:%s:%s" % (fname, bad[0]), "%s:%d" % (f.file, f.line), fname, "file %r: %s" % (content, bad[1]))
    seen, uniq = set(), []
    for f_ in r.findings:
        if f_.key not in seen:
            seen.add(f_.key)
            uniq.append(f_)
    r.findings = uniq
    return r


def rule_readfile(P):
    """evutil_read_file_ (the buffer both file readers parse): every read lands inside the block, behind what was read before; the terminator is written inside the block right behind
    the data; the descriptor is closed once on every path after it was opened; on failure the block is freed and nothing is handed out, on success exactly the block and the count"""
    from ..prog import HEAP_BASE
    r = Rule("C39-readfile", "K6", "evutil_read_file_: reads stay inside the block of size length+1, the terminator follows the data, the descriptor is closed once, the block is freed or handed out - never both, never neither", floor=15)
    f = P.fn("evutil_read_file_")
    BLK = HEAP_BASE + 20000
    cases = []
    for length in (0, 10):
        for script in ([length], [4, 6], [4, 0], [4, -1], [0], [-1], [3, 3, 4], [10, 5]):
            cases.append((5, length, BLK, script))
    cases += [(-1, 10, BLK, []), (5, -1, BLK, []), (5, 10, 0, [])]
    for fd, length, blk, script in cases:
        env = {"#typed": 1, "#bytemem": 1, "event_debug_logging_mask_": 0, f.params[0][0]: PStr(b"/etc/hosts"), f.params[1][0]: PRef(None, "#content"), f.params[2][0]: PRef(None, "#len"), f.params[3][0]: 0,
               "#content": 77, "#len": 77, "#ops": (), "#k": 0}

        def hook(el, e_):
            n = callee_name(el.e)
            a = el.e[2]
            try:
                if n == "evutil_open_closeonexec_":
                    return fd
                if n == "evutil_fd_filesize":
                    return length
                if n == "event_mm_malloc_":
                    e_["#ops"] = e_["#ops"] + (("malloc", evalx(normx(a[0]), e_, P)),)
                    return blk
                if n == "event_mm_free_":
                    e_["#ops"] = e_["#ops"] + (("free", evalx(normx(a[0]), e_, P)),)
                    return 0
                if n == "close":
                    e_["#ops"] = e_["#ops"] + (("close", evalx(normx(a[0]), e_, P)),)
                    return 0
                if n == "read":
                    addr, cnt = evalx(normx(a[1]), e_, P), evalx(normx(a[2]), e_, P)
                    k = e_["#k"]
                    e_["#k"] = k + 1
                    x = script[k] if k < len(script) else 0
                    got = min(x, cnt) if x > 0 else x
                    e_["#ops"] = e_["#ops"] + (("read", addr - blk, cnt, got),)
                    for i in range(max(got, 0)):
                        e_[("m", addr + i)] = 0x61
                    return got
            except EvalError as ex:
                e_["#err"] = str(ex)
                return "impure"
            return None
        for o in run_all(f, (f.entry, 0), env, lambda el: False, P, hook, max_steps=3000):
            if o.kind == "exit" and o.why == "noreturn":
                continue
            if o.kind != "ret":
                r.brk("evutil_read_file_(fd %d, length %d, reads %s): %s %s %s" % (fd, length, script, o.kind, o.why, o.env.get("#err", "")))
                return r
            try:
                rv = tevalx(normx(o.at.e[1]), o.env, P, f)
            except EvalError as ex:
                r.brk("evutil_read_file_: return value: %s" % ex)
                return r
            ops = list(o.env["#ops"])
            size = ([x[1] for x in ops if x[0] == "malloc"] or [0])[0]
            reads = [x for x in ops if x[0] == "read"]
            term = sorted(k[1] - blk for k, v in o.env.items() if isinstance(k, tuple) and k[0] == "m" and v == 0)
            content, ln = o.env.get("#content"), o.env.get("#len")
            r.inst((fd, length, blk != 0, tuple(script)), {"open": fd, "file_size": length, "malloc_ok": blk != 0, "read_answers": script, "returns": rv, "actions": [list(x) for x in ops], "content_out": content, "len_out": ln})
            bad = []
            pos = 0
            for _, off, cnt, got in reads:
                if off != pos or off + cnt > size or cnt < 0:
                    bad.append("a read of %d byte(s) at offset %d of a block of %d (data so far: %d)" % (cnt, off, size, pos))
                pos += max(got, 0)
            opened = fd >= 0
            if [x for x in ops if x[0] == "close"] != ([("close", fd)] if opened else []):
                bad.append("descriptor closed %s" % [x for x in ops if x[0] == "close"])
            failed = (not opened) or length < 0 or not blk or any(x[3] < 0 for x in reads)
            if failed:
                if rv == 0 or content not in (0, None) or ln not in (0, None):
                    bad.append("failure, but returns %r with content %r / length %r" % (rv, content, ln))
                if blk and [x for x in ops if x[0] == "malloc"] and ("free", blk) not in ops:
                    bad.append("the block is neither handed out nor freed")
            else:
                if rv != 0 or content != blk or ln != pos:
                    bad.append("success: returns %r, content %r (block %r), length %r (read %d)" % (rv, content, blk, ln, pos))
                if ("free", blk) in ops:
                    bad.append("the block is handed out and freed")
                if term != [pos] or pos >= size:
                    bad.append("terminator written at offset(s) %s, the data ends at %d, block size %d" % (term, pos, size))
            if bad:
                r.bad("K6:evutil_read_file_:%s" % ("bounds" if "read of" in bad[0] or "terminator" in bad[0] else "resources"), "%s:%d" % (f.file, f.line), f.name, "open %d, file size %d, malloc %s, read answers %s: %s" % (fd, length, "ok" if blk else "fails", script, "; ".join(bad)))
    seen, uniq = set(), []
    for f_ in r.findings:
        if f_.key not in seen:
            seen.add(f_.key)
            uniq.append(f_)
    r.findings = uniq
    return r


def rule_inflight_table(P):
    """max-inflight re-sizes the table of in-flight requests: the table pointer and its length are published together (nothing reads either of them between the two stores - an index
    computed with the old length into the new table files a request in the wrong list or outside the table), and every request is moved with an index taken modulo the NEW length"""
    r = Rule("C39-inflight-table", "K3/K4", "the in-flight table pointer and its length are stored back to back; requests are re-filed modulo the new length into the new table", floor=3)
    FP, FN = "evdns_base.req_heads", "evdns_base.n_req_heads"
    for f in P.fns_in("evdns.c"):
        sp = [el for el, lhs, op, rhs in f.stores() if is_e(strip(lhs), "fld") and strip(lhs)[2] == FP]
        sn = [el for el, lhs, op, rhs in f.stores() if is_e(strip(lhs), "fld") and strip(lhs)[2] == FN]
        if not sp and not sn:
            continue
        r.inst(("pair", f.name), {"fn": f.name, "pointer_stores": [e.where() for e in sp], "length_stores": [e.where() for e in sn]})
        if bool(sp) != bool(sn) and not (sp and all(is_e(strip(e.e[3]), "null") or (is_e(strip(e.e[3]), "int") and strip(e.e[3])[1] == 0) or is_e(strip(e.e[3]), "cast") for e in sp)):
            r.bad("K3:%s:table-half-published" % f.name, (sp or sn)[0].where(), f.name, "%s stores only one of the in-flight table pointer and its length" % f.name)
            continue
        for a in sp + sn:
            others = sn if a in sp else sp
            def reads_table(x):
                if x in sp or x in sn:
                    return False
                if x.e[0] == "call" and (callee_name(x.e) is None or (callee_name(x.e) in P.fns and P.fns[callee_name(x.e)].file == "evdns.c")):
                    return True         # another resolver function (or an unknown callee) may look at the table; allocator and libc calls do not
                return any(is_e(q, "fld") and q[2] in (FP, FN) for q in walk(x.e))
            # from this store, the partner store is reached before anything looks at the table
            w = f.path_avoiding(a.pos(), reads_table, lambda x: x in others)
            # ... on the paths that lead to the partner at all
            if w is not None and others and f.path_avoiding(w.pos(), lambda x: x in others, lambda x: False) is not None:
                r.bad("K3:%s:table-read-between-pointer-and-length" % f.name, w.where(), f.name,
                      "%s looks at the in-flight table (%s) after %s and before its partner is stored: pointer and length do not belong together there" % (f.name, show(w.e)[:50], show(a.e)[:40]))
    g = P.fn("evdns_base_set_max_requests_inflight")
    ins = [el for el in g.calls("evdns_request_insert")]
    newlen = None
    for el, lhs, op, rhs in g.stores():
        if is_e(strip(lhs), "fld") and strip(lhs)[2] == FN:
            newlen = strip(rhs)
    alloc = [strip(el.e[2]) if el.e[0] == "asg" else ["var", el.e[1], "local"] for el in g.elems() if el.e[0] in ("asg", "decl") and any(is_e(q, "call") and callee_name(q) == "event_mm_calloc_" for q in walk(el.e))]
    for el in ins:
        tgt = strip(el.e[2][1])
        okmod = any(is_e(q, "bin") and q[1] == "%" and newlen is not None and eq(strip(q[3]), newlen) for q in walk(tgt))
        oktab = any(alloc and eq(q, alloc[0]) for q in walk(tgt))
        r.inst(("refile", el.n), {"site": el.where(), "target": show(tgt)[:70], "modulo_new_length": okmod, "into_new_table": oktab})
        if not (okmod and oktab):
            r.bad("K4:evdns_base_set_max_requests_inflight:refile-index", el.where(), g.name, "a request is re-filed at %s: not the new table indexed modulo the new length %s" % (show(tgt)[:60], show(newlen) if newlen else "?"))
    if not ins:
        r.brk("no evdns_request_insert in evdns_base_set_max_requests_inflight")
    return r


def rule_search_add(P):
    """search_postfix_add: the stored postfix is the domain without its leading dots, its recorded length is that text's, the copy reads only the caller's string and fits the block"""
    from ..cmem import MEM0, mem_put, mem_str, mem_hook
    r = Rule("C39-search-add", "K6", "search_postfix_add stores the domain without leading dots, with its own length, reading only the caller's string and writing only what it allocated", floor=8)
    f = P.fn("search_postfix_add")
    HDR = 16
    sd = ["var", "sdomain", "local"]
    for dom in (b"example.com", b".example.com", b"..example.com", b"...a", b"a", b".", b"", b"corp.example."):
        env = {"#typed": 1, "#bytemem": 1, "event_debug_logging_mask_": 0, f.params[0][0]: PPtr("base"), ("@", "base", "#zero"): 1, ("@", "base", "evdns_base.global_search_state"): PPtr("ss"),
               ("@", "ss", "#zero"): 1, ("@", "base", "evdns_base.lock"): 0, f.params[1][0]: MEM0}
        mem_put(env, MEM0, dom)        # the string ends where the caller's buffer ends: the bytes behind the terminator hold no data

        def extra(el, e_):
            n = callee_name(el.e)
            if n in ("evthread_is_debug_lock_held_",):
                return 1
            if n == "search_state_new":
                return PPtr("ss")
            return None
        outs = [o for o in run_all(f, (f.entry, 0), env, lambda el: False, P, mem_hook(P, extra), max_steps=2000) if not (o.kind == "exit" and o.why == "noreturn")]
        want = dom.lstrip(b".")
        for o in outs:
            if o.kind not in ("ret", "exit"):
                r.brk("search_postfix_add(%r): %s %s %s" % (dom, o.kind, o.why, o.env.get("#err", "")))
                return r
            e_ = o.env
            blocks = e_.get("#blocks", ())
            ln = e_.get(nkey(["fld", sd, "search_domain.len", "->"]))
            r.inst(dom, {"domain": dom.decode(), "blocks": [list(b) for b in blocks], "len_field": ln})
            bad = None
            if e_.get("#oob"):
                bad = ("out-of-bounds", e_["#oob"])
            elif len(blocks) != 1:
                bad = ("allocation", "%d allocations" % len(blocks))
            else:
                addr, size = blocks[0]
                hdr = size - len(want)
                got = bytes(e_.get(("m", addr + hdr + k), 0x3f) for k in range(len(want))) if hdr >= 0 else None
                if ln != len(want):
                    bad = ("length", "records length %r for the postfix %r" % (ln, want))
                elif hdr < 8 or got != want:
                    bad = ("content", "block of %d bytes holds %r behind its header; the postfix is %r" % (size, got, want))
            if bad:
                r.bad("K6:search_postfix_add:%s" % bad[0], "%s:%d" % (f.file, f.line), f.name, "domain %r: %s" % (dom, bad[1]))
    seen, uniq = set(), []
    for f_ in r.findings:
        if f_.key not in seen:
            seen.add(f_.key)
            uniq.append(f_)
    r.findings = uniq
    return r


def rule_setport(P):
    """the default port of a nameserver given without one: sockaddr_setport / sockaddr_getport, both families, network byte order (siblings must agree)"""
    from ..interp import normx, nkey, run_all
    r = Rule("C39-setport", "K7/K6", "sockaddr_setport stores the port in network byte order for IPv4 and IPv6 alike, sockaddr_getport reads it back; other families are left alone", floor=6)
    f, g = P.fn("sockaddr_setport"), P.fn("sockaddr_getport")
    swap = lambda v: ((v & 0xff) << 8) | ((v >> 8) & 0xff)

    def hook(el, e_):
        n = callee_name(el.e)
        if n in ("htons", "ntohs", "__bswap_16", "__builtin_bswap16", "__uint16_identity"):
            try:
                v = evalx(normx(el.e[2][0]), e_, P)
            except EvalError:
                return "impure"
            return swap(v) if n != "__uint16_identity" else v
        return None
    FLD = {2: "sockaddr_in.sin_port", 10: "sockaddr_in6.sin6_port"}
    for fam in (2, 10, 1):
        for port in (53, 5353, 0x3500):
            env = {f.params[0][0]: PPtr("sa"), ("@", "sa", "#zero"): 1, ("@", "sa", "sockaddr.sa_family"): fam, f.params[1][0]: port}
            outs = [o for o in run_all(f, (f.entry, 0), env, lambda el: False, P, hook, max_steps=100) if not (o.kind == "exit" and o.why == "noreturn")]
            for o in outs:
                if o.kind not in ("ret", "exit"):
                    r.brk("sockaddr_setport(family %d): %s %s" % (fam, o.kind, o.why))
                    return r
                stored = {k[2]: v for k, v in o.env.items() if isinstance(k, tuple) and len(k) == 3 and k[0] == "@" and k[1] == "sa" and "port" in str(k[2])}
                want = {FLD[fam]: swap(port)} if fam in FLD else {}
                r.inst(("set", fam, port), {"family": fam, "port": port, "stored": {k: v for k, v in stored.items()}})
                if stored != want:
                    r.bad("K7:sockaddr_setport:byte-order", "%s:%d" % (f.file, f.line), f.name,
                          "family %d, port %d: stores %s, expected %s (network byte order in the port field of that family; the IPv4 and IPv6 branches must agree - a nameserver given without "
                          "a port would be asked on port %d)" % (fam, port, stored, want, swap(port)))
                    continue
                if fam in FLD:
                    env2 = {g.params[0][0]: PPtr("sa"), ("@", "sa", "#zero"): 1, ("@", "sa", "sockaddr.sa_family"): fam, ("@", "sa", FLD[fam]): swap(port)}
                    for o2 in run_all(g, (g.entry, 0), env2, lambda el: False, P, hook, max_steps=100):
                        if o2.kind != "ret":
                            continue
                        try:
                            back = evalx(normx(o2.at.e[1]), o2.env, P)
                        except EvalError:
                            back = None
                        r.inst(("get", fam, port), {"family": fam, "stored": swap(port), "read_back": back})
                        if back != port:
                            r.bad("K7:sockaddr_getport:byte-order", "%s:%d" % (g.file, g.line), g.name, "family %d: reads %r from a field holding port %d in network byte order" % (fam, back, port))
    return r


def run(ctx, config):
    P = ctx.prog(UNITS, config)
    rules = []
    for mk in (rule_table, rule_names, rule_options, rule_lines, rule_search_add, rule_hosts, rule_files, rule_readfile, rule_inflight_table, rule_setport):
        try:
            rules.append(mk(P))
        except AnalysisBroken as ex:
            rr = Rule("C39-%s" % mk.__name__[5:], "K6", mk.__name__, floor=1)
            rr.brk(str(ex))
            rules.append(rr)
    return rules
