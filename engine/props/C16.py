"""C16 — evbuffer socket I/O moves exactly the bytes the system call reports (K8 FLOW + K5)."""
from ..core import Rule
from ..prog import *
from ..facts import AnalysisBroken
from ..interp import normx, nkey, run_all
from .. import evbheap as HB
from .. import evbmodel as EM

UNITS = ["buffer"]
LEVEL = "other"
EXPLANATION = ("K8 amount: in evbuffer_read the value added to total_len / n_add_for_cb and to the chains' off is the variable whose only reaching "
               "definitions are the results of read()/readv(); in evbuffer_write_atmost the amount passed to evbuffer_drain is the variable whose "
               "reaching definitions are the writers' results (or the initial -1), and the writers return the syscall's result. K5: nothing is committed on "
               "the n == -1 / n == 0 / n <= 0 edges. K8 limit: the length handed to every write/writev/sendfile/read/readv depends on the caller's howmuch: "
               "write_iovec's iovec lengths are either howmuch itself or a chain length guarded by howmuch >= it with howmuch reduced by it; sendfile's length "
               "operand data-depends on howmuch; evbuffer_read passes howmuch and exact=1 to the vector setup whose lengths are clamped by howmuch - so_far. "
               "Decides value provenance on all paths; does not decide short-I/O sequences as such.")
ASSUMPTIONS = ["read/readv/write/writev/sendfile return the number of bytes transferred or -1"]
CONFIGS = ["build", "assert"]

READERS = ("read", "readv", "recv", "WSARecv")
WRITERS = ("write", "writev", "send", "sendfile")


def preds_test(fn, bid, var):
    """every edge into block bid comes from a branch whose condition tests `var` (handles `a || b` clamps)."""
    preds = fn.blocks[bid].preds
    if not preds:
        return False
    for p, lab in preds:
        t = fn.blocks[p].term
        if not t or "cond" not in t or not any(is_e(q, "var") and q[1] == var for q in walk(t["cond"])):
            return False
    return True


def run(ctx, config):
    P = ctx.prog(UNITS, config)
    rules = []
    # ------------------------------------------------ read: amount
    r = Rule("C16-read-amount", "K8/K5", "evbuffer_read adds exactly the syscall's result and nothing on the error/EOF edges", floor=6)
    f = P.fn("evbuffer_read")
    sys_calls = [el for el in f.calls() if callee_name(el.e) in READERS]
    if not sys_calls:
        r.brk("no read/readv in evbuffer_read")
    res_vars = set()
    for c in sys_calls:
        blk = f.blocks[c.bid]
        v = None
        for nx in blk.elems[c.idx + 1:c.idx + 2]:
            if nx.e[0] == "asg" and nx.e[1] == "=" and eq(strip(nx.e[3]), c.e) and is_e(strip(nx.e[2]), "var"):
                v = strip(nx.e[2])[1]
        r.inst(("sys", c.n), {"site": c.where(), "call": show(c.e)[:70], "result_in": v})
        if v is None:
            r.bad("K8:evbuffer_read:result-dropped:%s" % callee_name(c.e), c.where(), f.name, "the result of %s is not kept" % callee_name(c.e))
        else:
            res_vars.add(v)
    commits = []
    for el, lhs, op, rhs in f.stores():
        l = strip(lhs)
        if is_e(l, "fld") and l[2] in ("evbuffer.total_len", "evbuffer.n_add_for_cb", "evbuffer_chain.off") and op == "+=":
            commits.append((el, l, rhs))
    for el, l, rhs in commits:
        # amount must depend only on the syscall result: its root variables' reaching defs are the syscalls (or derived remaining/space)
        amt = strip(rhs)
        src_ok = False
        why = None
        if is_e(amt, "var"):
            defs = f.reaching_defs(amt[1], el)
            srcs = []
            for d, drhs in defs:
                dr = strip(drhs)
                if is_e(dr, "call") and callee_name(dr) in READERS:
                    srcs.append("syscall")
                elif is_e(dr, "var") and dr[1] in res_vars:
                    srcs.append("copy-of-result")
                elif is_e(dr, "bin") and dr[1] == "-" and is_e(strip(dr[2]), "var") and strip(dr[2])[1] == amt[1]:
                    srcs.append("reduced")
                elif d.e[0] == "asg" and d.e[1] == "-=":
                    srcs.append("reduced")
                elif is_e(dr, "int") and "EVBUFFER_CHAIN_MAX" in (dr[2] if len(dr) > 2 else ""):
                    srcs.append("clamp")
                elif any(is_e(q, "cond") for q in walk(dr)) and l[2] == "evbuffer_chain.off":
                    srcs.append("chain-space")     # per-chain share, bounded by `space < remaining`
                else:
                    srcs.append("other:" + show(dr)[:40])
            src_ok = bool(srcs) and all(not x.startswith("other") for x in srcs)
            why = srcs
        if l[2] != "evbuffer_chain.off":
            # the buffer-level amount must be exactly the result variable
            src_ok = src_ok and is_e(amt, "var") and amt[1] in res_vars and all(x == "syscall" for x in (why or []))
        gs = [negate_truth(c, t) for c, t, _ in f.guards_at(el.bid)]
        not_err = any(is_e(strip(c), "bin") and strip(c)[1] == "==" and is_e(strip(strip(c)[3]), "int") and strip(strip(c)[3])[1] == -1 and not t
                      and is_e(strip(strip(c)[2]), "var") and strip(strip(c)[2])[1] in res_vars for c, t in gs)
        not_eof = any(is_e(strip(c), "var") and strip(c)[1] in res_vars and t for c, t in gs)
        r.inst(("commit", el.n), {"site": el.where(), "store": show(el.e), "amount_sources": why, "dominated_by_n!=-1": not_err, "dominated_by_n!=0": not_eof})
        if not src_ok:
            r.bad("K8:evbuffer_read:%s:amount-not-syscall-result" % l[2].split(".")[-1], el.where(), f.name,
                  "%s grows by %s, which is not (only) the value returned by read/readv: %s" % (show(l), show(amt), why))
        if not (not_err and not_eof):
            r.bad("K5:evbuffer_read:%s:commit-on-error-or-eof" % l[2].split(".")[-1], el.where(), f.name,
                  "%s is updated on a path where the syscall returned -1 or 0" % show(l))
    rules.append(r)

    # ------------------------------------------------ read: limit
    r2 = Rule("C16-read-limit", "K8", "the space offered to read/readv is bounded by howmuch", floor=3)
    hm = f.params[2][0]
    setup = list(f.calls("evbuffer_read_setup_vecs_"))
    for c in setup:
        ok = eq(c.e[2][1], ["var", hm, "param"]) and is_e(strip(c.e[2][5]), "int") and strip(c.e[2][5])[1] == 1
        r2.inst(("setup", c.n), {"site": c.where(), "call": show(c.e)[:90], "passes_howmuch_exact": ok})
        if not ok:
            r2.bad("K8:evbuffer_read:setup-not-exact", c.where(), f.name, "evbuffer_read_setup_vecs_ must get howmuch and exact=1, got %s" % show(c.e)[:80])
    if not setup:
        r2.brk("evbuffer_read does not call evbuffer_read_setup_vecs_")
    # howmuch only ever lowered in evbuffer_read
    for el, lhs, op, rhs in f.stores():
        if is_e(strip(lhs), "var") and strip(lhs)[1] == hm:
            lowered = preds_test(f, el.bid, hm)
            r2.inst(("clamp", el.n), {"site": el.where(), "store": show(el.e), "under_comparison_with_howmuch": lowered})
            if not lowered:
                r2.bad("K8:evbuffer_read:howmuch-overwritten", el.where(), f.name, "howmuch is replaced unconditionally by %s" % show(rhs))
    g = P.fn("evbuffer_read_setup_vecs_")
    ghm, gexact = g.params[1][0], g.params[5][0]
    lens = [(el, rhs) for el, lhs, op, rhs in g.stores() if is_e(strip(lhs), "fld") and strip(lhs)[2].endswith(".iov_len")]
    for el, rhs in lens:
        v = strip(rhs)
        ok = False
        if is_e(v, "var"):
            for d, drhs in g.var_stores(v[1]):
                if g.depends_on(drhs, {ghm}):
                    gs = [negate_truth(c, t) for c, t, _ in g.guards_at(d.bid)]
                    if any(t and eq(c, ["var", gexact, "param"]) for c, t in gs) or any(any(is_e(q, "var") and q[1] == gexact for q in walk(c)) for c, t in gs):
                        ok = True
        # the clamp must be against what is still allowed: howmuch minus the running total of the lengths handed out so far
        from ..dnsparse import linear
        rem_ok = False
        acc = None
        if is_e(v, "var"):
            # accumulator: S += v in the same loop
            for e2, l2, op2, r2_ in g.stores():
                if op2 == "+=" and is_e(strip(l2), "var") and eq(strip(r2_), v):
                    acc = strip(l2)[1]
            if acc is not None:
                want = {key(["var", ghm, "param"]): 1, key(["var", acc, "local"]): -1}
                for d, drhs in g.var_stores(v[1]):
                    if g.depends_on(drhs, {ghm}) and linear(drhs) == want:
                        gs = [negate_truth(c, t) for c, t, _ in g.guards_at(d.bid)]
                        if any(t and is_e(strip(c), "bin") and strip(c)[1] == ">" and eq(strip(c)[2], v) and linear(strip(c)[3]) == want for c, t in gs):
                            rem_ok = True
        r2.inst(("len", el.n), {"site": el.where(), "store": show(el.e), "clamped_by_howmuch_under_exact": ok, "accumulator": acc,
                                "clamped_to_howmuch_minus_total_so_far": rem_ok})
        if not ok:
            r2.bad("K8:evbuffer_read_setup_vecs_:iov_len-not-clamped", el.where(), g.name, "iov_len is not clamped to howmuch - so_far when exact is set")
        elif not rem_ok:
            r2.bad("K8:evbuffer_read_setup_vecs_:iov_len-clamp-not-remaining", el.where(), g.name,
                   "iov_len is clamped, but not to (howmuch - total handed out so far): several vectors together can exceed howmuch")
    rules.append(r2)

    # ------------------------------------------------ write: amount
    r3 = Rule("C16-write-amount", "K8/K5", "evbuffer_write_atmost drains exactly what the writer reported, only when positive; writers return the syscall result", floor=5)
    f = P.fn("evbuffer_write_atmost")
    drains = list(f.calls("evbuffer_drain"))
    if len(drains) != 1:
        r3.brk("expected one evbuffer_drain in evbuffer_write_atmost")
    else:
        d = drains[0]
        amt = strip(d.e[2][1])
        srcs = []
        if is_e(amt, "var"):
            for df, rhs in f.reaching_defs(amt[1], d):
                rr = strip(rhs)
                if is_e(rr, "call") and callee_name(rr) in ("evbuffer_write_sendfile", "evbuffer_write_iovec") + WRITERS:
                    srcs.append(callee_name(rr))
                elif is_e(rr, "int") and rr[1] == -1:
                    srcs.append("-1")
                else:
                    srcs.append("other:" + show(rr)[:40])
        gs = [negate_truth(c, t) for c, t, _ in f.guards_at(d.bid)]
        pos = any(t and is_e(strip(c), "bin") and strip(c)[1] == ">" and eq(strip(c)[2], amt) and is_e(strip(strip(c)[3]), "int") and strip(strip(c)[3])[1] == 0 for c, t in gs)
        r3.inst("drain", {"site": d.where(), "call": show(d.e), "amount_sources": srcs, "only_when_positive": pos})
        if not srcs or any(x.startswith("other") for x in srcs):
            r3.bad("K8:evbuffer_write_atmost:drain-amount", d.where(), f.name, "evbuffer_drain gets %s, which is not the writer's result: %s" % (show(amt), srcs))
        if not pos:
            r3.bad("K5:evbuffer_write_atmost:drain-unconditional", d.where(), f.name, "the buffer is drained although the writer may have reported -1 or 0")
        rets = list(f.returns())
        if not all(eq(x.e[1], amt) for x in rets):
            r3.bad("K8:evbuffer_write_atmost:return", "%s:%d" % (f.file, f.line), f.name, "the function does not return the amount it drained")
    for wname in ("evbuffer_write_iovec", "evbuffer_write_sendfile"):
        if not P.has(wname):
            r3.brk("%s not found" % wname)
            continue
        g = P.fn(wname)
        for ret in g.returns():
            v = strip(ret.e[1])
            ok = False
            how = None
            if is_e(v, "int"):
                ok = v[1] in (0, -1)
                how = "constant %d" % v[1]
                if v[1] == 0:
                    # 0 only when nothing was handed to the kernel or the kernel said retry
                    how += " (nothing sent / retriable error)"
            elif is_e(v, "var"):
                defs = g.reaching_defs(v[1], ret)
                how = [show(rhs)[:50] for _, rhs in defs]
                ok = bool(defs) and all(is_e(strip(rhs), "call") and callee_name(strip(rhs)) in WRITERS for _, rhs in defs)
            r3.inst((wname, ret.n), {"fn": wname, "site": ret.where(), "returns": show(v), "source": how})
            if not ok:
                r3.bad("K8:%s:return-not-syscall-result" % wname, ret.where(), wname, "returns %s, not the syscall's result (%s)" % (show(v), how))
    rules.append(r3)

    # ------------------------------------------------ write: limit
    r4 = Rule("C16-write-limit", "K8", "the length handed to write/writev/sendfile is bounded by howmuch", floor=4)
    f = P.fn("evbuffer_write_atmost")
    hm = f.params[2][0]
    for c in f.calls():
        if callee_name(c.e) in ("evbuffer_write_sendfile", "evbuffer_write_iovec"):
            ok = eq(c.e[2][2], ["var", hm, "param"])
            r4.inst(("pass", c.n), {"site": c.where(), "call": show(c.e), "passes_howmuch": ok})
            if not ok:
                r4.bad("K8:evbuffer_write_atmost:howmuch-not-passed:%s" % callee_name(c.e), c.where(), f.name, "%s does not receive howmuch" % callee_name(c.e))
    for el, lhs, op, rhs in f.stores():
        if is_e(strip(lhs), "var") and strip(lhs)[1] == hm:
            ok = preds_test(f, el.bid, hm) and any(is_e(q, "fld") and q[2] == "evbuffer.total_len" for q in walk(rhs))
            r4.inst(("clamp", el.n), {"site": el.where(), "store": show(el.e), "clamp_to_total_len": ok})
            if not ok:
                r4.bad("K8:evbuffer_write_atmost:howmuch-overwritten", el.where(), f.name, "howmuch is replaced by %s outside the clamp to total_len" % show(rhs))
    g = P.fn("evbuffer_write_sendfile")
    ghm = g.params[2][0]
    for c in g.calls("sendfile"):
        # the count operand: the last integer-typed argument that is not a pointer/NULL; on Linux arg 3
        cnt = c.e[2][3] if len(c.e[2]) == 4 else None
        dep = cnt is not None and g.depends_on(cnt, {ghm}, c)
        r4.inst(("sendfile", c.n), {"site": c.where(), "call": show(c.e), "count_depends_on_howmuch": dep})
        if not dep:
            r4.bad("K8:evbuffer_write_sendfile:length-independent-of-howmuch", c.where(), g.name,
                   "sendfile's count %s does not depend on howmuch: more than the caller allowed can be written" % (show(cnt) if cnt else "?"))
    g = P.fn("evbuffer_write_iovec")
    ghm = g.params[2][0]
    for el, lhs, op, rhs in g.stores():
        l = strip(lhs)
        if is_e(l, "fld") and l[2].endswith(".iov_len"):
            v = strip(rhs)
            ok = False
            how = None
            if eq(v, ["var", ghm, "param"]):
                ok, how = True, "howmuch itself"
            else:
                gs = [negate_truth(c, t) for c, t, _ in g.guards_at(el.bid)]
                for c, t in gs:
                    c = strip(c)
                    if t and is_e(c, "bin") and c[1] == ">=" and eq(strip(c[2]), ["var", ghm, "param"]) and eq(strip(c[3]), v):
                        # and howmuch is reduced by it afterwards in the same block
                        red = any(e2.bid == el.bid and op2 == "-=" and is_e(strip(l2), "var") and strip(l2)[1] == ghm and eq(strip(r2_), v)
                                  for e2, l2, op2, r2_ in g.stores())
                        if red:
                            ok, how = True, "guarded by howmuch >= it, howmuch reduced by it"
            r4.inst(("iov", el.n), {"site": el.where(), "store": show(el.e), "bounded": how})
            if not ok:
                # the bound itself is decided by evaluation (C16-write-structure: what is offered to the kernel is a prefix of at most howmuch bytes, for every layout); a bound
                # that is spelled in a way this clause does not recognise (kept in a flag, tested the other way round ...) is not a violation
                r4.notes.append("iovec length %s at %s: bound by howmuch not recognised syntactically (decided by C16-write-structure)" % (show(v), el.where()))
    rules.append(r4)
    rules.append(rule_read_heap(P))
    rules.append(rule_write_heap(P))
    return rules


def rule_write_heap(P):
    """evbuffer_write_atmost evaluated on abstract buffer images with symbolic bytes: what is offered to write/writev is a prefix of the content no longer than
    howmuch, nothing is offered while the front is frozen, and afterwards the buffer holds exactly the bytes the kernel did not take"""
    r = Rule("C16-write-structure", "K6", "evbuffer_write_atmost offers a prefix (<= howmuch) of the content, nothing while frozen, and removes exactly what the kernel accepted", floor=150)
    f = P.fn("evbuffer_write_atmost")
    nb = 0
    for title, chains, lwd in EM.LAYOUTS:
        total = sum(c.get("off", 0) for c in chains)
        first_off = chains[0].get("off", 0) if chains else 0
        for howmuch in sorted(set([-1, 0, 1, first_off, first_off + 1, total, total + 10])):
            for frozen in (0, 1):
                for mode in ("all", "one", "but-one", "zero", "error"):
                    env = EM.base_env(P, chains, lwd)
                    HB.seed_memory(env, "buf", "d")
                    env[HB.cell("buf", "evbuffer", "freeze_start")] = frozen

                    def extra(el, e_, mode=mode):
                        n = callee_name(el.e)
                        if n not in ("write", "writev", "send", "sendfile"):
                            return None
                        a = el.e[2]
                        segs = []
                        try:
                            if n in ("write", "send"):
                                segs.append((evalx(normx(a[1]), e_, P), evalx(normx(a[2]), e_, P)))
                            elif n == "writev":
                                cnt = evalx(normx(a[2]), e_, P)
                                arr = strip(a[1])
                                for k in range(cnt):
                                    b_ = e_.get(nkey(["fld", ["idx", arr, ["int", k]], "iovec.iov_base", "."]))
                                    l_ = e_.get(nkey(["fld", ["idx", arr, ["int", k]], "iovec.iov_len", "."]))
                                    if b_ is None or l_ is None:
                                        e_["#err"] = "iovec %d not initialised" % k
                                        return "impure"
                                    segs.append((b_, l_))
                            else:
                                return "impure"
                        except EvalError as ex:
                            e_["#err"] = str(ex)
                            return "impure"
                        offered = []
                        for b_, l_ in segs:
                            for j in range(l_):
                                offered.append(e_.get(("m", b_ + j)))
                        e_["#offered"] = e_.get("#offered", ()) + (tuple(offered),)
                        res = {"all": len(offered), "one": min(1, len(offered)), "but-one": max(len(offered) - 1, 0), "zero": 0, "error": -1}[mode]
                        e_["#sent"] = res
                        return res
                    hook = HB.make_hook(P, extra=extra)
                    e0 = dict(env)
                    e0.update({"#typed": 1, "event_debug_logging_mask_": 0, f.params[0][0]: PPtr("buf"), f.params[1][0]: 5, f.params[2][0]: howmuch})
                    outs = [o for o in run_all(f, (f.entry, 0), e0, lambda el: False, P, hook, max_steps=2500) if not (o.kind == "exit" and o.why == "noreturn")]
                    for o in outs:
                        if o.kind != "ret":
                            r.brk("evbuffer_write_atmost(%s, howmuch=%d): %s %s %s" % (title, howmuch, o.kind, o.why, o.env.get("#err", "")))
                            return r
                        rv = tevalx(normx(o.at.e[1]), o.env, P, f)
                        old = EM.sym("d", total)
                        offs = o.env.get("#offered", ())
                        sent = o.env.get("#sent")
                        bad = []
                        eff = total if (howmuch < 0 or howmuch > total) else howmuch
                        if frozen:
                            if offs:
                                bad.append("%d bytes were handed to the kernel although the front of the buffer is frozen" % len(offs[0]))
                            bad += EM.check_after(o.env, "buf", old, 0, 0)
                            if rv != -1:
                                bad.append("returns %r on a frozen buffer" % (rv,))
                        else:
                            if len(offs) > 1:
                                bad.append("more than one system call")
                            if offs:
                                off0 = list(offs[0])
                                if len(off0) > eff:
                                    bad.append("offers %d bytes, howmuch allows %d" % (len(off0), eff))
                                if off0 != old[:len(off0)]:
                                    bad.append("the bytes offered are not the first bytes of the buffer")
                                took = max(sent, 0)
                                bad += EM.check_after(o.env, "buf", old[took:], 0, took)
                                if rv != sent:
                                    bad.append("returns %r, the kernel reported %d" % (rv, sent))
                            else:
                                bad += EM.check_after(o.env, "buf", old, 0, 0)
                                if eff > 0 and total > 0:
                                    bad.append("nothing was offered although %d bytes could be written" % eff)
                        r.inst((title, howmuch, frozen, mode), {"layout": title, "howmuch": howmuch, "frozen_front": frozen, "kernel_takes": mode, "returns": rv, "violations": bad}, nontrivial=bool(offs) or bool(frozen))
                        if bad and nb < 6:
                            nb += 1
                            r.bad("K6:evbuffer_write_atmost:%s" % ("frozen" if frozen else "structure"), "%s:%d" % (f.file, f.line), f.name,
                                  "%s, howmuch=%d, front %s, kernel takes %s: %s" % (title, howmuch, "frozen" if frozen else "not frozen", mode, "; ".join(bad[:3])))
    return r


def rule_read_heap(P):
    """evbuffer_read evaluated on abstract buffer images: after a read of n bytes the chain list satisfies the evbuffer invariants (sizes, total_len, last,
    *last_with_datap is the last chain holding data) for every layout x every n up to the offered space"""
    r = Rule("C16-read-structure", "K6", "evbuffer_read leaves a well-formed buffer for every chain layout and every number of bytes the kernel returns", floor=20)
    f = P.fn("evbuffer_read")
    g = P.fn("evbuffer_read_setup_vecs_")
    bufp = f.params[0][0]
    layouts = [
        ("one chain, partly filled", [dict(buffer_len=100, off=40)], 0),
        ("one empty chain", [dict(buffer_len=100, off=0)], 0),
        ("full chain + empty chain", [dict(buffer_len=100, off=100), dict(buffer_len=100, off=0)], 0),
        ("partly filled chain + empty chain", [dict(buffer_len=100, off=40, misalign=10), dict(buffer_len=100, off=0)], 0),
        ("full chain + two empty chains", [dict(buffer_len=100, off=100), dict(buffer_len=50, off=0), dict(buffer_len=100, off=0)], 0),
        ("two data chains, second partly filled", [dict(buffer_len=100, off=100), dict(buffer_len=100, off=30), dict(buffer_len=100, off=0)], 1),
    ]
    nb = 0
    for title, chains, lwd in layouts:
        space = []
        started = False
        for k, c in enumerate(chains):
            sp = c["buffer_len"] - c.get("misalign", 0) - c.get("off", 0)
            if k >= lwd and (sp > 0 or started):
                started = True
                space.append(sp)
        space = space[:4]
        total_space = sum(space)
        cuts = set([1, total_space])
        acc = 0
        for sp in space:
            acc += sp
            cuts.update([acc - 1, acc, acc + 1])
        for n in sorted(x for x in cuts if 1 <= x <= total_space):
            env = HB.build(chains, lwd)
            before = sum(c.get("off", 0) for c in chains)
            env.update({"#typed": 1, bufp: PPtr("buf"), f.params[1][0]: 5, f.params[2][0]: total_space, "event_debug_logging_mask_": 0})

            def hook(el, e_):
                nm = callee_name(el.e)
                if nm == "get_n_bytes_readable_on_socket":
                    return 4096
                if nm == "evbuffer_expand_fast_":
                    return 0
                if nm in ("read", "readv"):
                    return n
                if nm in ("evbuffer_invoke_callbacks_", "evthread_is_debug_lock_held_"):
                    return 0
                if nm == "evbuffer_read_setup_vecs_":
                    env2 = dict((k, v) for k, v in e_.items() if isinstance(k, tuple) and k and k[0] == "@")
                    env2["#typed"] = 1
                    a = el.e[2]
                    try:
                        env2[g.params[0][0]] = evalx(normx(a[0]), e_, P)
                        env2[g.params[1][0]] = evalx(normx(a[1]), e_, P)
                        env2[g.params[3][0]] = evalx(normx(a[3]), e_, P)
                        env2[g.params[5][0]] = evalx(normx(a[5]), e_, P)
                    except EvalError as ex:
                        e_["#err"] = str(ex)
                        return "impure"
                    env2[g.params[2][0]] = 7
                    env2[g.params[4][0]] = PRef(None, "#out:chainp")
                    alts = []
                    for o2 in run_all(g, (g.entry, 0), env2, lambda x: False, P, lambda x, y: 0 if callee_name(x.e) == "evthread_is_debug_lock_held_" else None, max_steps=400):
                        if o2.kind == "exit" and o2.why == "noreturn":
                            continue
                        if o2.kind != "ret":
                            e_["#err"] = "evbuffer_read_setup_vecs_: %s %s" % (o2.kind, o2.why)
                            return "impure"
                        out = strip(a[4])
                        upd = {}
                        if is_e(out, "addr") and is_e(strip(out[1]), "var"):
                            upd[strip(out[1])[1]] = o2.env.get("#out:chainp")
                        alts.append((evalx(normx(o2.at.e[1]), o2.env, P), upd))
                    return alts or "impure"
                return None
            outs = [o for o in run_all(f, (f.entry, 0), env, lambda el: False, P, hook, max_steps=600) if not (o.kind == "exit" and o.why == "noreturn")]
            for o in outs:
                if o.kind != "ret":
                    r.brk("evbuffer_read(%s, n=%d): %s %s %s" % (title, n, o.kind, o.why, o.env.get("#err", "")))
                    return r
                try:
                    res = evalx(normx(o.at.e[1]), o.env, P)
                except EvalError:
                    res = None
                bad = HB.invariant(o.env)
                tl = o.env.get(HB.cell("buf", "evbuffer", "total_len"))
                nadd = o.env.get(HB.cell("buf", "evbuffer", "n_add_for_cb"))
                if res != n:
                    bad.append("returns %s for a read of %d bytes" % (res, n))
                if tl != before + n:
                    bad.append("total_len %s, expected %d" % (tl, before + n))
                if nadd != n:
                    bad.append("n_add_for_cb %s, expected %d" % (nadd, n))
                r.inst((title, n), {"layout": title, "bytes_read": n, "chains_after": [[i, fl["misalign"], fl["off"], fl["buffer_len"]] for i, fl in HB.chain_list(o.env)] if not bad or True else None, "violations": bad})
                if bad and nb < 5:
                    nb += 1
                    r.bad("K6:evbuffer_read:structure", "%s:%d" % (f.file, f.line), f.name, "%s, kernel returns %d bytes: %s" % (title, n, "; ".join(bad)))
    return r
