"""C02 — the event flag machine: extracted transition functions equal the documented model on the whole flag domain (K6/K5), writers (K2), event_pending table (K6)."""
from ..core import Rule
from ..prog import *
from ..facts import AnalysisBroken
from ..interp import normx, nkey, run_all
from ..fsm import Machine, EVLIST as L, EV

UNITS = ["event"]
ALL_UNITS = None
LEVEL = "other"
CONFIGS = ["build", "assert", "reinsert"]
EXPLANATION = (
    "The list-membership word of an event has six live bits. Every function that moves an event between lists (the eight event_queue_* "
    "functions, event_callback_activate[_later]_nolock_, event_callback_cancel_nolock_, event_active[_later]_nolock_, event_del_nolock_, "
    "event_add_nolock_, event_remove_timer_nolock_) is evaluated from its extracted CFG (engine/interp.py, engine/fsm.py; calls between "
    "them resolved by evaluating the callee) on EVERY consistent flag value x internal/non-internal x result word x the possible results of the "
    "backend map / heap reservation, and each outcome (flags', event_count', event_count_active', ev_res', return value) must equal the "
    "reference model of the documented state machine written in this module. Further: each EVLIST_* bit and each counter is written only in its "
    "owner functions (bit-level who-may-write over all 31 units); event_pending's result is evaluated on every flag/interest/result/query "
    "combination against the documented table, and its reported expiry is ev_timeout (magic bits masked) + tv_clock_diff; flag words are only "
    "ever bit-tested (an equality test of ev_res/ev_events/ev_flags against a flag constant is reported, one named exception). "
    "Declined: equality with the model over whole API histories (callbacks, loop iterations), event_base_assert_ok_ never failing.")
ASSUMPTIONS = ["an event is never on the active and the active-later queue at once (asserted by libevent itself)",
               "evmap_io/signal_add_/del_ return -1, 0 or 1; min_heap_reserve_ returns 0 or -1"]

MEMBER = L["TIMEOUT"] | L["INSERTED"] | L["ACTIVE"] | L["ACTIVE_LATER"]
IOSIG = EV["READ"] | EV["WRITE"] | EV["CLOSED"] | EV["SIGNAL"]


def flag_values(with_finalizing=True):
    out = []
    for t in (0, L["TIMEOUT"]):
        for i in (0, L["INSERTED"]):
            for a in (0, L["ACTIVE"], L["ACTIVE_LATER"]):
                for n in (0, L["INTERNAL"]):
                    for f in ((0, L["FINALIZING"]) if with_finalizing else (0,)):
                        out.append(L["INIT"] | t | i | a | n | f)
    return out


def nint(fl):
    return 0 if fl & L["INTERNAL"] else 1


# ---------------------------------------------------------------- reference model
def m_insert(bit, also_blocks=0, active=False):
    def m(s, a, ch, cfg):
        fl = s["flags"]
        if fl & (bit | also_blocks):
            return [dict(s, ret=None)]
        r = dict(s, flags=fl | bit, count=s["count"] + nint(fl), ret=None)
        if active:
            r["active"] = s["active"] + 1
        return [r]
    return m


def m_remove(bit, active=False):
    def m(s, a, ch, cfg):
        fl = s["flags"]
        if not fl & bit:
            return [dict(s, ret=None)] if cfg != "assert" else []     # FAILURE_CHECK aborts; with NDEBUG the precondition is the caller's
        r = dict(s, flags=fl & ~bit, count=s["count"] - nint(fl), ret=None)
        if active:
            r["active"] = s["active"] - 1
        return [r]
    return m


def m_activate(s, a, ch, cfg):
    fl = s["flags"]
    if fl & L["FINALIZING"]:
        return [dict(s, ret=0)]
    if fl & L["ACTIVE"]:
        return [dict(s, ret=0)]
    if fl & L["ACTIVE_LATER"]:
        return [dict(s, flags=(fl & ~L["ACTIVE_LATER"]) | L["ACTIVE"], ret=0)]
    return [dict(s, flags=fl | L["ACTIVE"], count=s["count"] + nint(fl), active=s["active"] + 1, ret=1)]


def m_activate_later(s, a, ch, cfg):
    fl = s["flags"]
    if fl & (L["ACTIVE"] | L["ACTIVE_LATER"]):
        return [dict(s, ret=0)]
    return [dict(s, flags=fl | L["ACTIVE_LATER"], count=s["count"] + nint(fl), active=s["active"] + 1, ret=1)]


def m_del(s, a, ch, cfg):
    fl = s["flags"]
    if a.get("blocking") != 3 and fl & L["FINALIZING"]:      # EVENT_DEL_EVEN_IF_FINALIZING == 3
        return [dict(s, ret=0)]
    n = nint(fl)
    r = dict(s)
    removed = 0
    for b in (L["TIMEOUT"], L["ACTIVE"], L["ACTIVE_LATER"], L["INSERTED"]):
        if fl & b:
            removed += 1
    r["flags"] = fl & ~MEMBER
    r["count"] = s["count"] - removed * n
    r["active"] = s["active"] - (1 if fl & (L["ACTIVE"] | L["ACTIVE_LATER"]) else 0)
    ret = 0
    if fl & L["INSERTED"]:
        which = "evmap_io_del_" if s["events"] & (EV["READ"] | EV["WRITE"] | EV["CLOSED"]) else "evmap_signal_del_"
        v = ch.get(which)
        ret = -1 if v == -1 else 0
    r["ret"] = ret
    return [r]


def m_cancel(s, a, ch, cfg):
    fl = s["flags"]
    if fl & L["FINALIZING"] and not a.get("even_if_finalizing"):
        return [dict(s, ret=0)]
    if fl & L["INIT"]:
        return m_del(s, {"blocking": 3 if a.get("even_if_finalizing") else 2}, ch, cfg)
    n = nint(fl)
    if fl & L["ACTIVE"]:
        return [dict(s, flags=fl & ~L["ACTIVE"], count=s["count"] - n, active=s["active"] - 1, ret=0)]
    if fl & L["ACTIVE_LATER"]:
        return [dict(s, flags=fl & ~L["ACTIVE_LATER"], count=s["count"] - n, active=s["active"] - 1, ret=0)]
    return [dict(s, ret=0)]


def m_active(s, a, ch, cfg):
    fl = s["flags"]
    res = a.get("res", 0)
    if fl & L["FINALIZING"]:
        return [dict(s, ret=None)]
    if fl & L["ACTIVE"]:
        return [dict(s, res=s["res"] | res, ret=None)]
    if fl & L["ACTIVE_LATER"]:
        return [dict(s, res=s["res"] | res, flags=(fl & ~L["ACTIVE_LATER"]) | L["ACTIVE"], ret=None)]
    return [dict(s, res=res, flags=fl | L["ACTIVE"], count=s["count"] + nint(fl), active=s["active"] + 1, ret=None)]


def m_active_later(s, a, ch, cfg):
    fl = s["flags"]
    res = a.get("res", 0)
    if fl & (L["ACTIVE"] | L["ACTIVE_LATER"]):
        return [dict(s, res=s["res"] | res, ret=None)]
    return [dict(s, res=res, flags=fl | L["ACTIVE_LATER"], count=s["count"] + nint(fl), active=s["active"] + 1, ret=None)]


def m_remove_timer(s, a, ch, cfg):
    fl = s["flags"]
    if fl & L["TIMEOUT"]:
        return [dict(s, flags=fl & ~L["TIMEOUT"], count=s["count"] - nint(fl), ret=0)]
    return [dict(s, ret=0)]


def m_add(s, a, ch, cfg):
    fl = s["flags"]
    tv = a.get("tv")
    n = nint(fl)
    if fl & L["FINALIZING"]:
        return [dict(s, ret=-1)]
    if tv and not fl & L["TIMEOUT"] and ch.get("min_heap_reserve_") == -1:
        return [dict(s, ret=-1)]
    r = dict(s)
    ret = 0
    if s["events"] & IOSIG and not fl & (L["INSERTED"] | L["ACTIVE"] | L["ACTIVE_LATER"]):
        which = "evmap_io_add_" if s["events"] & (EV["READ"] | EV["WRITE"] | EV["CLOSED"]) else "evmap_signal_add_"
        ret = ch.get(which)
        if ret != -1:
            r["flags"] |= L["INSERTED"]
            r["count"] += n
        if ret == 1:
            ret = 0
    if ret != -1 and tv:
        if r["flags"] & L["TIMEOUT"]:
            r["flags"] &= ~L["TIMEOUT"]
            r["count"] -= n
        if r["flags"] & L["ACTIVE"] and s["res"] & EV["TIMEOUT"]:
            r["flags"] &= ~L["ACTIVE"]
            r["count"] -= n
            r["active"] -= 1
        r["flags"] |= L["TIMEOUT"]
        r["count"] += n
    r["ret"] = ret
    return [r]


MODEL = {
    "event_queue_insert_inserted": (m_insert(L["INSERTED"]), {}),
    "event_queue_remove_inserted": (m_remove(L["INSERTED"]), {}),
    "event_queue_insert_active": (m_insert(L["ACTIVE"], active=True), {}),
    "event_queue_remove_active": (m_remove(L["ACTIVE"], active=True), {}),
    "event_queue_insert_active_later": (m_insert(L["ACTIVE_LATER"], also_blocks=L["ACTIVE"], active=True), {}),
    "event_queue_remove_active_later": (m_remove(L["ACTIVE_LATER"], active=True), {}),
    "event_queue_insert_timeout": (m_insert(L["TIMEOUT"]), {}),
    "event_queue_remove_timeout": (m_remove(L["TIMEOUT"]), {}),
    "event_callback_activate_nolock_": (m_activate, {}),
    "event_callback_activate_later_nolock_": (m_activate_later, {}),
    "event_callback_cancel_nolock_": (m_cancel, {"even_if_finalizing": (0, 1)}),
    "event_active_nolock_": (m_active, {"res": (EV["READ"], EV["TIMEOUT"]), "ncalls": (1,)}),
    "event_active_later_nolock_": (m_active_later, {"res": (EV["READ"], EV["TIMEOUT"])}),
    "event_del_nolock_": (m_del, {"blocking": (0, 1, 2, 3)}),
    "event_remove_timer_nolock_": (m_remove_timer, {}),
    "event_add_nolock_": (m_add, {"tv": (0, 1), "tv_is_absolute": (0, 1)}),
}
PRECOND = {"event_queue_insert_inserted": (L["INSERTED"], 0), "event_queue_insert_timeout": (L["TIMEOUT"], 0),
           "event_queue_remove_inserted": (L["INSERTED"], L["INSERTED"]), "event_queue_remove_timeout": (L["TIMEOUT"], L["TIMEOUT"]),
           "event_queue_remove_active": (L["ACTIVE"], L["ACTIVE"]), "event_queue_remove_active_later": (L["ACTIVE_LATER"], L["ACTIVE_LATER"])}


def argsets(spec):
    out = [{}]
    for k, vals in spec.items():
        out = [dict(o, **{k: v}) for o in out for v in vals]
    return out


def rule_machine(P, config, only=None):
    r = Rule("C02-machine", "K6/K5", "every transition function equals the reference model on the whole flag domain", floor=1500)
    M = Machine(P)
    for name, (model, spec) in MODEL.items():
        if only is not None and name not in only:
            continue
        if not P.has(name):
            r.brk("anchor function %s not found" % name)
            continue
        nbad = 0
        for fl in flag_values():
            if name in PRECOND and (fl & PRECOND[name][0]) != PRECOND[name][1]:
                continue   # outside the primitive's precondition (EVUTIL_FAILURE_CHECK aborts there; with NDEBUG it is the caller's obligation, which the compositional evaluation of the callers checks)
            for events in ((EV["READ"] | EV["PERSIST"], EV["SIGNAL"], 0) if name in ("event_add_nolock_", "event_del_nolock_", "event_callback_cancel_nolock_") else (EV["READ"],)):
                for res0 in ((EV["TIMEOUT"], EV["READ"], EV["TIMEOUT"] | EV["READ"]) if name in ("event_add_nolock_", "event_active_nolock_", "event_active_later_nolock_") else (EV["READ"],)):
                    for args in argsets(spec):
                        st = {"flags": fl, "res": res0, "events": events, "count": 100, "active": 50}
                        try:
                            outs = M.evaluate(name, st, args)
                        except RecursionError:
                            r.brk("%s: evaluation recursion" % name)
                            return r
                        for o in outs:
                            if o["unknown"]:
                                r.brk("%s(flags=%#x): %s" % (name, fl, o["unknown"]))
                                nbad += 1
                                break
                            ch = dict(o["choices"])
                            exp = model(st, args, ch, config)
                            got = dict(o["st"], ret=o["ret"])
                            r.inst((name, fl, events, res0, tuple(sorted(args.items())), o["choices"]),
                                   {"fn": name, "flags": hex(fl), "args": args, "choices": ch, "flags_out": hex(got["flags"]), "count": got["count"], "active": got["active"], "ret": got["ret"]})
                            ok = any(all(got.get(k) == e.get(k) for k in ("flags", "res", "count", "active", "ret")) for e in exp)
                            if not ok and nbad < 3:
                                nbad += 1
                                e = exp[0] if exp else {}
                                diff = ", ".join("%s=%s (model %s)" % (k, hex(got[k]) if k == "flags" and got[k] is not None else got.get(k), hex(e[k]) if k == "flags" and e.get(k) is not None else e.get(k))
                                                 for k in ("flags", "res", "count", "active", "ret") if got.get(k) != e.get(k))
                                what = [n_ for n_, v in L.items() if fl & v]
                                r.bad("K6:%s:transition" % name, "%s:%d" % (P.fn(name).file, P.fn(name).line), name,
                                      "from flags {%s}, ev_events=%#x, ev_res=%#x, args %s, external results %s: %s" % ("|".join(what), events, res0, args, ch, diff))
                        if nbad >= 3:
                            break
    return r


def rule_who(P):
    """bit-level who-may-write for the flag word and the counters"""
    r = Rule("C02-who", "K2", "each EVLIST_* bit and each event counter is written only by its owner functions", floor=25)
    OWN = {
        L["INSERTED"]: {"event_queue_insert_inserted", "event_queue_remove_inserted"},
        L["ACTIVE"]: {"event_queue_insert_active", "event_queue_remove_active", "event_queue_make_later_events_active"},
        L["ACTIVE_LATER"]: {"event_queue_insert_active_later", "event_queue_remove_active_later", "event_queue_make_later_events_active"},
        L["TIMEOUT"]: {"event_queue_insert_timeout", "event_queue_remove_timeout"},
        L["FINALIZING"]: {"event_finalize_nolock_", "event_callback_finalize_nolock_"},
        L["INTERNAL"]: {"event_base_init_common_timeout", "evthread_make_base_notifiable_nolock_", "evsig_init_", "sigfd_init_", "sigfd_add", "event_base_once"},
        L["INIT"]: {"event_debug_unassign"},
    }
    WHOLE = {"event_assign": L["INIT"], "event_debug_unassign": None, "event_callback_init_": 0, "event_deferred_cb_init_": 0}
    names = {v: k for k, v in L.items()}
    for f in P.all_fns:
        for el, lhs, op, rhs in f.stores():
            fl = fields_of(lhs)
            if not fl or fl[-1] != "event_callback.evcb_flags":
                continue
            rv = strip(rhs)
            bits = None
            kind = op
            if op == "|=" and is_e(rv, "int"):
                bits = rv[1]
            elif op == "&=" and is_e(rv, "int"):
                bits = ~rv[1] & 0xff
            elif op == "&=" and is_e(rv, "un") and rv[1] == "~" and is_e(strip(rv[2]), "int"):
                bits = strip(rv[2])[1]
            elif op == "=":
                bits = "whole"
            r.inst(("flags", f.name, el.n), {"fn": f.name, "site": el.where(), "store": show(el.e)[:80], "bits": bits if bits == "whole" or bits is None else [names.get(b, hex(b)) for b in names if bits & b]})
            if bits == "whole":
                if f.name in WHOLE:
                    want = WHOLE[f.name]
                    if want is not None and not (is_e(rv, "int") and rv[1] == want):
                        r.bad("K2:%s:flags-whole-store" % f.name, el.where(), f.name, "initialiser stores %s into the flag word, expected %#x" % (show(rhs), want))
                elif f.name == "event_queue_make_later_events_active":
                    # (flags & ~ACTIVE_LATER) | ACTIVE
                    env_ok = True
                    for v in (0x80, 0xa0, 0xb2, 0xa1):
                        try:
                            got = evalx(normx(rhs), {nkey(lhs): v}, P)
                        except EvalError:
                            env_ok = False
                            break
                        if got != ((v & ~L["ACTIVE_LATER"]) | L["ACTIVE"]):
                            env_ok = False
                    if not env_ok:
                        r.bad("K2:%s:later-to-active-rewrite" % f.name, el.where(), f.name, "the whole-word store is not (flags & ~ACTIVE_LATER) | ACTIVE")
                else:
                    r.bad("K2:%s:flags-whole-store" % f.name, el.where(), f.name, "the list-membership word is overwritten outside the initialisers: %s" % show(el.e)[:70])
            elif bits is None:
                r.bad("K2:%s:flags-opaque-store" % f.name, el.where(), f.name, "unrecognised store into the list-membership word: %s" % show(el.e)[:70])
            else:
                for b in names:
                    if bits & b and f.name not in OWN.get(b, set()):
                        r.bad("K2:%s:flag-bit:%s" % (f.name, names[b]), el.where(), f.name, "EVLIST_%s is %s outside its owner functions" % (names[b], "set" if op == "|=" else "cleared"))
    CNT = {"event_base.event_count": {"event_queue_insert_inserted", "event_queue_remove_inserted", "event_queue_insert_active", "event_queue_remove_active",
                                      "event_queue_insert_active_later", "event_queue_remove_active_later", "event_queue_insert_timeout", "event_queue_remove_timeout"},
           "event_base.event_count_active": {"event_queue_insert_active", "event_queue_remove_active", "event_queue_insert_active_later", "event_queue_remove_active_later"},
           "event_base.virtual_event_count": {"event_base_add_virtual_", "event_base_del_virtual_"},
           }
    MAXF = {"event_base.event_count_max", "event_base.event_count_active_max", "event_base.virtual_event_count_max"}
    for f in P.all_fns:
        for el, lhs, op, rhs in f.stores():
            fl = fields_of(lhs)
            if not fl:
                continue
            if fl[-1] in CNT:
                r.inst(("cnt", f.name, el.n), {"fn": f.name, "site": el.where(), "store": show(el.e)[:70]}, nontrivial=False)
                if f.name not in CNT[fl[-1]]:
                    r.bad("K2:%s:counter:%s" % (f.name, fl[-1].split(".")[-1]), el.where(), f.name, "%s is written outside its owner functions" % fl[-1].split(".")[-1])
            elif fl[-1] in MAXF:
                ok = f.name in CNT["event_base.event_count"] or f.name in CNT["event_base.virtual_event_count"] or f.name == "event_base_get_max_events"
                r.inst(("max", f.name, el.n), {"fn": f.name, "site": el.where()}, nontrivial=False)
                if not ok:
                    r.bad("K2:%s:counter-max" % f.name, el.where(), f.name, "%s is written outside the owner functions / get_max_events(clear)" % fl[-1].split(".")[-1])
    return r


def rule_pending(P):
    r = Rule("C02-pending", "K6", "event_pending equals the documented table on every flags/interest/result/query combination; expiry = ev_timeout masked + clock diff", floor=300)
    f = P.fn("event_pending")
    ev = ["var", f.params[0][0], "param"]
    q = f.params[1][0]
    tvp = f.params[2][0]
    kfl = nkey(["fld", ["fld", ev, "event.ev_evcallback", "->"], "event_callback.evcb_flags", "."])
    kev = nkey(["fld", ev, "event.ev_events", "->"])
    kres = nkey(["fld", ev, "event.ev_res", "->"])
    kb = nkey(["fld", ev, "event.ev_base", "->"])
    dl_s = nkey(["fld", ["fld", ev, "event.ev_timeout", "->"], "timeval.tv_sec", "."])
    dl_u = nkey(["fld", ["fld", ev, "event.ev_timeout", "->"], "timeval.tv_usec", "."])
    cd_s = nkey(["fld", ["fld", ["fld", ev, "event.ev_base", "->"], "event_base.tv_clock_diff", "->"], "timeval.tv_sec", "."])
    cd_u = nkey(["fld", ["fld", ["fld", ev, "event.ev_base", "->"], "event_base.tv_clock_diff", "->"], "timeval.tv_usec", "."])
    o_s = nkey(["fld", ["var", tvp, "param"], "timeval.tv_sec", "->"])
    o_u = nkey(["fld", ["var", tvp, "param"], "timeval.tv_usec", "->"])
    nbad = 0
    for fl in flag_values(False):
        for events in (EV["READ"] | EV["PERSIST"], EV["READ"] | EV["WRITE"] | EV["ET"], EV["SIGNAL"], EV["CLOSED"] | EV["FINALIZE"]):
            for res in (EV["READ"], EV["TIMEOUT"] | EV["WRITE"]):
                for query in (EV["TIMEOUT"], EV["READ"] | EV["WRITE"], EV["SIGNAL"] | EV["CLOSED"], 0xff):
                    for tvnn in (0, 1):
                        env = {ev[1]: 1, kfl: fl, kev: events, kres: res, kb: 1, q: query, tvp: tvnn, "event_debug_mode_on_": 0,
                               dl_s: 7, dl_u: 999999 | 0x50000000, cd_s: 100, cd_u: 5, o_s: -1, o_u: -1}
                        outs = run_all(f, (f.entry, 0), env, lambda el: False, P, lambda el, e: None)
                        for o in outs:
                            if o.kind == "exit" and o.why == "noreturn":
                                continue
                            if o.kind != "ret":
                                r.brk("event_pending: evaluation ended as %s (%s)" % (o.kind, o.why))
                                return r
                            try:
                                got = evalx(normx(o.at.e[1]), o.env, P)
                            except EvalError as ex:
                                r.brk("event_pending: return value not evaluable: %s" % ex)
                                return r
                            want = 0
                            if fl & L["INSERTED"]:
                                want |= events & IOSIG
                            if fl & (L["ACTIVE"] | L["ACTIVE_LATER"]):
                                want |= res
                            if fl & L["TIMEOUT"]:
                                want |= EV["TIMEOUT"]
                            want &= query & (EV["TIMEOUT"] | IOSIG)
                            r.inst((fl, events, res, query, tvnn), {"flags": hex(fl), "ev_events": hex(events), "ev_res": hex(res), "query": hex(query), "result": hex(got), "expected": hex(want)})
                            if got != want and nbad < 3:
                                nbad += 1
                                r.bad("K6:event_pending:table", "%s:%d" % (f.file, f.line), f.name,
                                      "flags=%#x ev_events=%#x ev_res=%#x query=%#x: returns %#x, documented %#x" % (fl, events, res, query, got, want))
                            if tvnn and want & EV["TIMEOUT"]:
                                gs, gu = o.env.get(o_s), o.env.get(o_u)
                                us = (7 + 100) * 1000000 + 999999 + 5
                                if (gs, gu) != (us // 1000000, us % 1000000) and nbad < 3:
                                    nbad += 1
                                    r.bad("K6:event_pending:expiry", "%s:%d" % (f.file, f.line), f.name,
                                          "reported expiry (%s,%s), expected deadline with magic bits masked plus tv_clock_diff = (%d,%d)" % (gs, gu, us // 1000000, us % 1000000))
                            elif (o.env.get(o_s), o.env.get(o_u)) != (-1, -1) and nbad < 3:
                                nbad += 1
                                r.bad("K6:event_pending:expiry-written-without-timeout", "%s:%d" % (f.file, f.line), f.name, "*tv is written although no timeout is reported")
    return r


FLAGWORDS = {"event_callback.evcb_flags": "ev_flags", "event.ev_res": "ev_res", "event.ev_events": "ev_events"}
EQ_EXC = {("event_base_set", "ev_flags"): "`ev_flags != EVLIST_INIT` asks for a pristine event: every other bit must be clear (documented: only innocent events may change base)"}


def rule_bittest(Pall):
    r = Rule("C02-bittest", "K4", "flag words (ev_flags, ev_res, ev_events) are only bit-tested; equality with a flag constant is a contradiction with every other site", floor=60)
    ntest = 0
    for f in Pall.all_fns:
        conds = []
        for b in f.branch_blocks():
            if b.term.get("cond") is not None:
                conds.append((b.term["cond"], "%s:%d" % (f.file, b.term["loc"][0])))
        for el in f.elems():
            if el.e[0] in ("asg", "decl", "ret"):
                conds.append((el.e, el.where()))
        seen = set()
        for c, where in conds:
            for s in walk(c):
                if not is_e(s, "bin"):
                    continue
                for side, other in ((2, 3), (3, 2)):
                    w = strip(s[side])
                    if is_e(w, "fld") and w[2] in FLAGWORDS:
                        k_ = (where, key(s))
                        if k_ in seen:
                            continue
                        seen.add(k_)
                        o = strip(s[other])
                        if s[1] == "&":
                            ntest += 1
                            r.inst(("bit", f.name, where, show(s)[:40]), {"fn": f.name, "site": where, "test": show(s)[:70]}, nontrivial=False)
                        elif s[1] in ("==", "!=") and is_e(o, "int") and o[1] != 0:
                            word = FLAGWORDS[w[2]]
                            r.inst(("eq", f.name, where), {"fn": f.name, "site": where, "test": show(s)[:70]})
                            if (f.name, word) not in EQ_EXC:
                                r.bad("K4:%s:flag-word-equality:%s" % (f.name, word), where, f.name,
                                      "%s is compared for equality with %s; flag words are bit sets and every other site tests them with & (other bits may be set)" % (word, show(o)))
    return r


def rule_expiry(P):
    """what a timer expiry does to the event's list membership, in both expiry loops"""
    r = Rule("C02-expiry", "K6", "an expiring event leaves every pending list and becomes active with EV_TIMEOUT (or merges EV_TIMEOUT if already active)", floor=40)
    from .C01 import _heads
    M = Machine(P)
    n_fn = 0
    for f in P.fns_in("event.c"):
        for a in f.calls("event_active_nolock_"):
            if len(a.e[2]) < 2 or not (is_e(strip(a.e[2][1]), "int") and strip(a.e[2][1])[1] == EV["TIMEOUT"]):
                continue
            X = strip(a.e[2][0])
            if not is_e(X, "var") or not list(f.calls("gettime")):
                continue
            heads = _heads(P, f, X[1])
            if not heads:
                continue
            n_fn += 1
            d, kind = heads[0]
            g = list(f.calls("gettime"))[0]
            nowv = strip(strip(g.e[2][1])[1])
            hi = 0x50000000 if kind == "queue" else 0
            due = {nkey(["fld", ["fld", X, "event.ev_timeout", "->"], "timeval.tv_sec", "."]): 5, nkey(["fld", ["fld", X, "event.ev_timeout", "->"], "timeval.tv_usec", "."]): 7 | hi,
                   nkey(["fld", nowv, "timeval.tv_sec", "."]): 9, nkey(["fld", nowv, "timeval.tv_usec", "."]): 0, X[1]: 1}
            # evaluate up to and including the activation: stop at the first element after it
            blk = f.blocks[a.bid]
            after = blk.elems[a.idx + 1] if a.idx + 1 < len(blk.elems) else None
            hdrs = tuple(f.loops_of(a.bid))
            nbad = 0
            for fl in flag_values(False):
                if not fl & L["TIMEOUT"]:
                    continue
                for events in (EV["READ"] | EV["PERSIST"], EV["READ"], EV["SIGNAL"] | EV["PERSIST"], 0, EV["PERSIST"]):
                    if not (events & IOSIG) and fl & L["INSERTED"]:
                        continue
                    st = {"flags": fl, "res": EV["READ"] if fl & (L["ACTIVE"] | L["ACTIVE_LATER"]) else 0, "events": events, "count": 100, "active": 50}
                    stop = (lambda el: el is after) if after is not None else (lambda el: False)
                    outs = M.evaluate(f.name, st, {}, extra=due, region=((d.bid, d.idx + 1), stop, hdrs), ev_var=X)
                    for o in outs:
                        if o["unknown"]:
                            r.brk("%s: %s" % (f.name, o["unknown"]))
                            return r
                        if "event_active_nolock_" not in o["calls"]:
                            r.brk("%s: a due event does not reach the activation (%s)" % (f.name, o["calls"]))
                            return r
                        n = nint(fl)
                        was = fl & (L["ACTIVE"] | L["ACTIVE_LATER"])
                        if was:
                            wf = (fl & ~(L["TIMEOUT"] | L["ACTIVE_LATER"])) | L["ACTIVE"]
                            wr = st["res"] | EV["TIMEOUT"]
                            wc = st["count"] - n
                            wa = st["active"]
                        else:
                            wf = (fl & ~(L["TIMEOUT"] | L["INSERTED"])) | L["ACTIVE"]
                            wr = EV["TIMEOUT"]
                            wc = st["count"] - n * (1 + (1 if fl & L["INSERTED"] else 0)) + n
                            wa = st["active"] + 1
                        got = o["st"]
                        r.inst((f.name, fl, events, o["choices"]), {"fn": f.name, "flags": hex(fl), "ev_events": hex(events), "after": hex(got["flags"]), "res": hex(got["res"]), "count": got["count"], "active": got["active"]})
                        if (got["flags"], got["res"], got["count"], got["active"]) != (wf, wr, wc, wa) and nbad < 3:
                            nbad += 1
                            r.bad("K6:%s:expiry-transition" % f.name, a.where(), f.name,
                                  "expiring event with flags %#x, ev_events %#x: becomes flags %#x res %#x count %d active %d; documented flags %#x res %#x count %d active %d "
                                  "(a timed-out event is removed from every pending list before it is activated; the persist closure re-adds it)" % (
                                      fl, events, got["flags"], got["res"], got["count"], got["active"], wf, wr, wc, wa))
    if n_fn < 2:
        r.brk("expected two expiry loops (heap and common queue), found %d" % n_fn)
    return r


def rule_union(P):
    """struct event keeps the I/O timeout (ev_.ev_io.ev_timeout) and a signal event's call counters (ev_.ev_signal.ev_ncalls / ev_pncalls) in one union: a store to
    the I/O member is only right where the event is known not to be a signal event"""
    r = Rule("C02-union", "K4", "stores to the ev_io timeout member of the event union are guarded by 'not a signal event' (it overlays ev_ncalls/ev_pncalls)", floor=3)
    for f in P.fns_in("event.c"):
        for el, lhs, op, rhs in f.stores():
            fl = fields_of(lhs)
            if not (any(x.endswith("ev_io") for x in fl) and any("ev_timeout" in x for x in fl)):
                continue
            gs = [negate_truth(c, t) for c, t, _ in f.guards_at(el.bid)]
            def not_signal(c, t):
                c = strip(c)
                has_sig = any(is_e(q, "int") and len(q) > 2 and q[2] == "EV_SIGNAL" for q in walk(c))
                if has_sig and is_e(c, "bin") and c[1] == "&" and not t:
                    return True
                if is_e(c, "bin") and c[1] == "==" and any(is_e(q, "fld") and (q[2].endswith("ev_closure") or q[2].endswith("evcb_closure")) for q in walk(c)) and any(is_e(q, "int") and len(q) > 2 and q[2] == "EV_CLOSURE_EVENT_PERSIST" for q in walk(c)) and t:
                    return True
                return False
            ok = any(not_signal(c, t) for c, t in gs)
            r.inst((f.name, el.n), {"fn": f.name, "site": el.where(), "store": show(el.e)[:70], "guarded_not_signal": ok})
            if not ok:
                r.bad("K4:%s:io-timeout-store-on-signal-event" % f.name, el.where(), f.name,
                      "`%s` writes the I/O timeout member of the event union without having established that the event is not a signal event: for a signal event these bytes are ev_ncalls/ev_pncalls — the deliveries still to be reported are dropped" % show(el.e)[:60])
    return r


def rule_ncalls(P):
    """event_active_nolock_ and the pending deliveries of a signal event: an event that is already active keeps its call count (only the result flags are or-ed in); a signal event that
    becomes active gets exactly the count it is activated with; the count of other events is not touched.  (The number of times the callback runs is the count.)"""
    from ..interp import run_all, normx, nkey
    r = Rule("C02-ncalls", "K6", "event_active_nolock_: an already-active event keeps its pending call count, a newly activated signal event gets the given count, once", floor=12)
    f = P.fn("event_active_nolock_")
    evv = ["var", f.params[0][0], "param"]
    K = lambda fl: nkey(["fld", evv, fl, "->"])
    kflags = nkey(["fld", ["fld", evv, "event.ev_evcallback", "->"], "event_callback.evcb_flags", "."])
    kres = K("event.ev_res")
    kev = K("event.ev_events")
    kn = None
    for el, lhs, op, rhs in f.stores():
        l = strip(lhs)
        if is_e(l, "fld") and l[2].endswith(".ev_ncalls"):
            kn = nkey(normx(l))
    if kn is None:
        r.brk("no store of ev_ncalls in event_active_nolock_")
        return r
    basev = ["var", "base", "local"]
    for flags in (0, L["ACTIVE"], L["ACTIVE_LATER"], L["INSERTED"], L["INSERTED"] | L["ACTIVE"]):
        for events in (EV["SIGNAL"], EV["SIGNAL"] | EV["PERSIST"], EV["READ"]):
            for ncalls in (1, 2):
                env = {"#typed": 1, "event_debug_logging_mask_": 0, f.params[0][0]: 1, f.params[1][0]: EV["TIMEOUT"], f.params[2][0]: ncalls, kflags: flags, kres: EV["SIGNAL"], kev: events, kn: 3, "#act": 0,
                       nkey(["fld", basev, "event_base.event_running_priority", "->"]): -1, nkey(["fld", basev, "event_base.current_event", "->"]): 0,
                       nkey(["fld", basev, "event_base.th_base_lock", "->"]): 0, nkey(["fld", ["fld", evv, "event.ev_evcallback", "->"], "event_callback.evcb_pri", "."]): 0}

                def hook(el, e_):
                    n = callee_name(el.e)
                    if n in ("event_callback_activate_nolock_", "event_queue_insert_active", "event_callback_activate_later_nolock_"):
                        e_["#act"] += 1
                        return 0
                    if n in ("event_to_event_callback",):
                        return 9
                    if n in ("evthread_is_debug_lock_held_",):
                        return 1
                    if n in ("event_debugx_",):
                        return 0
                    return None
                for o in run_all(f, (f.entry, 0), env, lambda el: False, P, hook, max_steps=400):
                    if o.kind == "exit" and o.why == "noreturn":
                        continue
                    if o.kind == "unknown":
                        r.brk("event_active_nolock_(flags %#x, events %#x): %s" % (flags, events, o.why))
                        return r
                    got = o.env.get(kn)
                    was_active = bool(flags & L["ACTIVE"])
                    want = 3 if (was_active or not (events & EV["SIGNAL"])) else ncalls
                    want_act = 0 if was_active else 1
                    r.inst((flags, events, ncalls), {"flags": hex(flags), "ev_events": hex(events), "ncalls_arg": ncalls, "pending_before": 3, "pending_after": got, "activations": o.env["#act"]})
                    if got != want or o.env["#act"] != want_act:
                        r.bad("K6:event_active_nolock_:pending-call-count", "%s:%d" % (f.file, f.line), f.name,
                              "flags %#x, ev_events %#x, 3 deliveries pending, activated again with ncalls=%d: %s deliveries pending afterwards, queued %d time(s); expected %d pending, queued %d time(s)" % (
                                  flags, events, ncalls, got, o.env["#act"], want, want_act))
    seen, uniq = set(), []
    for f_ in r.findings:
        if f_.key not in seen:
            seen.add(f_.key)
            uniq.append(f_)
    r.findings = uniq
    return r


def rule_io_timeout_fresh(P):
    """the interval a persistent event is re-armed with (ev_io_timeout) belongs to one scheduling of the event: adding the event afresh (it is in no queue) without a timeout must not
    leave the interval of an earlier add behind - the persist closure would arm a timeout nobody asked for as soon as the event fires for I/O; adding without a timeout while the event
    is pending leaves its timeout alone"""
    from ..interp import run_all, normx, nkey
    r = Rule("C02-io-timeout", "K6", "event_add_nolock_(ev, NULL): a persistent event added afresh forgets the interval of an earlier add; a pending one keeps its timeout", floor=4)
    f = P.fn("event_add_nolock_")
    evv = ["var", f.params[0][0], "param"]
    kflags = nkey(["fld", ["fld", evv, "event.ev_evcallback", "->"], "event_callback.evcb_flags", "."])
    kclos = nkey(["fld", ["fld", evv, "event.ev_evcallback", "->"], "event_callback.evcb_closure", "."])
    kev = nkey(["fld", evv, "event.ev_events", "->"])
    ksec = kusec = None
    for g in P.fns_in("event.c"):
        for x in [el.e for el in g.elems()] + [b.term["cond"] for b in g.branch_blocks()]:
            for q in walk(x):
                if is_e(q, "fld") and q[2] == "timeval.tv_sec" and any(is_e(z, "fld") and z[2].endswith("ev_io_timeout") for z in walk(q)) and root_var(q) is not None and g is P.fn("event_persist_closure"):
                    pass
    io = ["fld", ["fld", evv, "event.ev_", "->"], "", "."]
    # the spelling of ev->ev_io_timeout in this function
    cand = None
    for el, lhs, op, rhs in f.stores():
        for q in walk(lhs):
            if is_e(q, "fld") and "ev_timeout" in q[2] and is_e(strip(q[1]), "fld") and strip(q[1])[2].endswith("ev_io"):
                cand = q
    if cand is None:
        r.brk("no store of ev_io_timeout in event_add_nolock_")
        return r
    ksec = nkey(normx(["fld", cand, "timeval.tv_sec", "."]))
    kusec = nkey(normx(["fld", cand, "timeval.tv_usec", "."]))
    basev = ["var", "base", "local"]
    PERSIST = 2
    for g in P.fns_in("event.c"):
        for x in [el.e for el in g.elems()] + [b.term["cond"] for b in g.branch_blocks()]:
            for q in walk(x):
                if is_e(q, "int") and len(q) > 2 and q[2] == "EV_CLOSURE_EVENT_PERSIST":
                    PERSIST = q[1]
    cases = [("fresh", 0, True), ("pending with a timeout", L["INSERTED"] | L["TIMEOUT"], False), ("pending without a timeout", L["INSERTED"], False), ("active", L["INSERTED"] | L["ACTIVE"], False)]
    for cname, flags, cleared in cases:
        env = {"#typed": 1, "event_debug_logging_mask_": 0, "event_debug_mode_on_": 0, f.params[0][0]: 1, f.params[1][0]: 0, f.params[2][0]: 0, kflags: flags, kclos: PERSIST, kev: EV["READ"] | EV["PERSIST"], ksec: 5, kusec: 0,
               nkey(["fld", basev, "event_base.current_event", "->"]): 0, nkey(["fld", basev, "event_base.th_base_lock", "->"]): 0}

        def hook(el, e_):
            n = callee_name(el.e)
            if n in ("evmap_io_add_", "evmap_signal_add_"):
                return 0
            if n in ("event_queue_insert_inserted", "event_debug_assert_is_setup_", "event_debugx_", "evthread_notify_base"):
                return 0
            if n in ("evthread_is_debug_lock_held_",):
                return 1
            if n == "event_to_event_callback":
                return 9
            if n in ("memset", "__builtin_memset", "__builtin___memset_chk"):
                a = el.e[2]
                if any(is_e(q, "fld") and "ev_timeout" in q[2] and is_e(strip(q[1]), "fld") and strip(q[1])[2].endswith("ev_io") for q in walk(a[0])):
                    e_[ksec] = 0
                    e_[kusec] = 0
                return 0
            return None
        for o in run_all(f, (f.entry, 0), env, lambda el: False, P, hook, max_steps=800):
            if o.kind == "exit" and o.why == "noreturn":
                continue
            if o.kind == "unknown":
                r.brk("event_add_nolock_(%s): %s" % (cname, o.why))
                return r
            got = (o.env.get(ksec), o.env.get(kusec))
            want = (0, 0) if cleared else (5, 0)
            r.inst(cname, {"event": cname, "tv": None, "interval_before": [5, 0], "interval_after": list(got)})
            if got != want:
                r.bad("K6:event_add_nolock_:stale-interval" if cleared else "K6:event_add_nolock_:interval-lost", "%s:%d" % (f.file, f.line), f.name,
                      "persistent event, %s, added with tv == NULL: re-arm interval %s afterwards, expected %s" % (cname, got, want))
    return r


def run(ctx, config):
    P = ctx.prog(UNITS, config)
    Pall = ctx.prog(None, config)
    return [rule_machine(P, config), rule_who(Pall), rule_pending(P), rule_bittest(Pall), rule_expiry(P), rule_union(P), rule_ncalls(P), rule_io_timeout_fresh(P)]
