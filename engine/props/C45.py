"""C45 — prepare/check watchers run once per iteration around the wait (K3 order, K8 timeout pointer, K9 traversal safety)."""
from ..core import Rule
from ..prog import *
from ..facts import AnalysisBroken

UNITS = ["event", "watch"]
LEVEL = "other"
EXPLANATION = ("In the function that invokes the backend's dispatch slot (the loop): K3 — the prepare traversal dominates the dispatch call with no "
               "timer/active-queue processing in between; the check traversal is dominated by the dispatch call and by update_time_cache and dominates "
               "timeout_process and event_process_active; K8 — prepare_info.timeout is assigned, before the traversal, the very pointer that is passed to "
               "dispatch, and that pointer is not reassigned in between; K9 — each traversal that releases the lock and calls a watcher callback does not read "
               "the current watcher's link afterwards: it advances from a cursor saved before the callback, and because the property allows freeing *other* "
               "watchers from a callback the cursor must live where the unlinking code can see it, and every function that unlinks a watcher must step the "
               "cursor over the removed element. Decides ordering and traversal safety on all paths; exact once-per-iteration over histories is declined.")
ASSUMPTIONS = []
CONFIGS = ["build", "assert"]

CB_SLOTS = {"evwatch_cb.prepare": "prepare", "evwatch_cb.check": "check"}


def run(ctx, config):
    P = ctx.prog(UNITS, config)
    rules = []
    loops = [f for f in P.all_fns if any(True for _ in f.calls(slot="eventop.dispatch"))]
    if len(loops) != 1:
        raise AnalysisBroken("expected exactly one function calling eventop.dispatch, found %s" % [f.name for f in loops])
    f = loops[0]
    disp = list(f.calls(slot="eventop.dispatch"))[0]
    trav = {}
    for slot, kind in CB_SLOTS.items():
        cs = list(f.calls(slot=slot))
        if len(cs) != 1:
            raise AnalysisBroken("expected one %s watcher invocation in %s, found %d" % (kind, f.name, len(cs)))
        trav[kind] = cs[0]
    r = Rule("C45-order", "K3", "prepare watchers immediately before the wait, check watchers immediately after it and before timers/callbacks", floor=6)
    def header_of(cb):
        # the innermost loop branch block that dominates the callback and is reachable from it
        best = None
        for b in f.branch_blocks():
            if b.term["k"] in ("for", "while") and f.dominates(b.id, cb.bid) and b.id in f.reach_blocks(cb.bid):
                if best is None or f.dominates(best.id, b.id):
                    best = b
        return best
    hp, hc = header_of(trav["prepare"]), header_of(trav["check"])
    if hp is None or hc is None:
        r.brk("watcher traversal loops not recognised")
        return [r]
    def calls_named(*names):
        return [el for el in f.calls() if callee_name(el.e) in names]
    tproc = calls_named("timeout_process")
    aproc = calls_named("event_process_active")
    upd = calls_named("update_time_cache")
    later = calls_named("event_queue_make_later_events_active")
    r.inst("prepare-dominates-dispatch", {"prepare_loop": "%s:%d" % (f.file, hp.term["loc"][0]), "dispatch": disp.where()})
    if not f.dominates(hp.id, disp.bid):
        r.bad("K3:%s:dispatch-without-prepare" % f.name, disp.where(), f.name, "the backend wait can be reached without running the prepare watchers")
    # nothing that changes what the wait will see between prepare and dispatch
    forbidden = lambda el: el.e[0] == "call" and callee_name(el.e) in ("timeout_process", "event_process_active", "event_queue_make_later_events_active", "timeout_next")
    w = f.path_avoiding(trav["prepare"].pos(), forbidden, lambda el: el is disp)
    r.inst("nothing-between", {"witness": repr(w) if w else None})
    if w is not None:
        r.bad("K3:%s:work-between-prepare-and-wait" % f.name, w.where(), f.name, "%s runs between the prepare watchers and the wait" % show(w.e)[:50])
    r.inst("check-after-dispatch", {"check_loop": "%s:%d" % (f.file, hc.term["loc"][0])})
    if not f.dominates(disp.bid, hc.id) or (disp.bid == hc.id):
        r.bad("K3:%s:check-before-wait" % f.name, "%s:%d" % (f.file, hc.term["loc"][0]), f.name, "check watchers are not dominated by the dispatch call")
    # once the wait has returned successfully, the iteration cannot be left (exit, or next prepare) without the check traversal
    resv = None
    for nx in f.blocks[disp.bid].elems[disp.idx + 1:disp.idx + 2]:
        if nx.e[0] == "asg" and eq(strip(nx.e[3]), disp.e):
            resv = strip(nx.e[2])
    cut = set()
    for b in f.branch_blocks():
        c = strip(b.term["cond"])
        if resv is not None and is_e(c, "bin") and c[1] == "==" and eq(c[2], resv) and is_e(strip(c[3]), "int") and strip(c[3])[1] == -1:
            cut |= set((b.id, s_) for s_, l in b.succ if l == "T")
    reach = f.reach_blocks(disp.bid, avoid_blocks={hc.id}, avoid_edges=cut)
    skipped = (f.exit in reach) or (hp.id in reach)
    r.inst("check-not-skippable", {"dispatch": disp.where(), "error_edges_cut": len(cut), "iteration_can_end_without_check": skipped})
    if skipped:
        r.bad("K3:%s:check-skipped-after-wait" % f.name, disp.where(), f.name,
              "after a successful wait a path leaves the iteration (loop exit or next prepare) without running the check watchers")
    for u in upd:
        if f.dominates(disp.bid, u.bid):
            r.inst(("update", u.n), {"site": u.where(), "before_check": f.dominates(u.bid, hc.id)})
            if not f.dominates(u.bid, hc.id):
                r.bad("K3:%s:check-before-time-update" % f.name, u.where(), f.name, "check watchers can run before update_time_cache")
    for t in tproc + aproc:
        ok = f.dominates(hc.id, t.bid)
        r.inst(("after-check", t.n), {"site": t.where(), "call": callee_name(t.e), "dominated_by_check_loop": ok})
        if not ok:
            r.bad("K3:%s:%s-before-check" % (f.name, callee_name(t.e)), t.where(), f.name, "%s can run before the check watchers" % callee_name(t.e))
    if not tproc or not aproc:
        r.brk("timeout_process / event_process_active not found in the loop")
    # later->active promotion happens before prepare
    for l in later:
        if not f.dominates(l.bid, hp.id):
            r.bad("K3:%s:later-promotion-after-prepare" % f.name, l.where(), f.name, "deferred ('later') callbacks are promoted after the prepare watchers ran")
    rules.append(r)

    r2 = Rule("C45-timeout", "K8", "the timeout reported to prepare watchers is the pointer handed to dispatch", floor=2)
    st = [(el, rhs) for el, lhs, op, rhs in f.stores() if is_e(strip(lhs), "fld") and strip(lhs)[2] == "evwatch_prepare_cb_info.timeout"]
    darg = strip(disp.e[2][1]) if len(disp.e[2]) > 1 else None
    r2.inst("store", {"stores": [show(e.e) for e, _ in st], "dispatch_arg": show(darg) if darg else None})
    if len(st) != 1 or darg is None or not eq(st[0][1], darg):
        r2.bad("K8:%s:prepare-timeout-not-dispatch-arg" % f.name, st[0][0].where() if st else f.file, f.name,
               "prepare_info.timeout is %s but dispatch waits with %s" % ([show(r_) for _, r_ in st], show(darg) if darg else None))
    else:
        s0 = st[0][0]
        if not f.pos_dominates(s0.pos(), trav["prepare"].pos()):
            r2.bad("K8:%s:prepare-timeout-late" % f.name, s0.where(), f.name, "prepare_info.timeout is set after the prepare callbacks run")
        if is_e(darg, "var"):
            redef = f.path_avoiding(s0.pos(), lambda el: el is disp, lambda el: False)
            # any store to the pointer variable between the report and the wait?
            bad = None
            for d, rhs in f.var_stores(darg[1]):
                if d is s0:
                    continue
                if f.path_avoiding(s0.pos(), lambda el: el is d, lambda el: el is disp) is not None and \
                        f.path_avoiding(d.pos(), lambda el: el is disp, lambda el: el is s0) is not None:
                    bad = d
            r2.inst("stable", {"pointer": darg[1], "redefined_between": repr(bad) if bad else None})
            if bad is not None:
                r2.bad("K8:%s:timeout-changed-after-report" % f.name, bad.where(), f.name, "%s is reassigned between the report to the prepare watchers and the wait" % darg[1])
        # the timeval it points to is not modified either
    rules.append(r2)

    r3 = Rule("C45-traversal", "K9", "watcher traversals advance from a repairable cursor saved before the callback", floor=2)
    unlinkers = []
    for g in P.all_fns:
        for el, lhs, op, rhs in g.stores():
            l = strip(lhs)
            # TAILQ_REMOVE on a watcher: stores through evwatch::next.tqe_prev / tqe_next of neighbours
            if el.mac and "TAILQ_REMOVE" in el.mac and any(is_e(q, "fld") and q[2].startswith("evwatch::next.") for q in walk(el.e)):
                if g not in unlinkers:
                    unlinkers.append(g)
    for kind, cb in trav.items():
        hdr = header_of(cb)
        # loop variable: the variable tested by the header
        lv = strip(negate_truth(hdr.term["cond"], True)[0])
        body = f.natural_loop(hdr.id)
        adv = [(el, rhs) for el, rhs in (f.var_stores(lv[1]) if is_e(lv, "var") else []) if el.bid in body and
               f.path_avoiding(cb.pos(), lambda x, el=el: x is el, lambda x: False) is not None and el.bid != f.entry]
        adv = [(el, rhs) for el, rhs in adv if f.dominates(hdr.id, el.bid)]
        info = {"kind": kind, "callback": cb.where(), "loop_var": show(lv), "advance": [show(e.e) for e, _ in adv]}
        if len(adv) != 1:
            r3.brk("%s traversal: advance of the loop variable not recognised (%s)" % (kind, info["advance"]))
            continue
        ael, arhs = adv[0]
        reads_link = any(is_e(q, "fld") and q[2].startswith("evwatch::next.") and eq(strip(q[1])[1] if is_e(strip(q[1]), "fld") else strip(q[1]), lv) for q in walk(arhs)) or \
            any(is_e(q, "fld") and q[2] == "evwatch.next" and eq(strip(q[1]), lv) for q in walk(arhs))
        info["reads_current_link_after_callback"] = reads_link
        if reads_link:
            r3.inst((kind,), info)
            r3.bad("K9:%s:watchers[%s]:advance-after-callback" % (f.name, kind), ael.where(), f.name,
                   "after the %s callback returned (lock released meanwhile) the loop reads %s: a watcher that frees itself in its callback is read after free" % (kind, show(arhs)))
            continue
        cur = strip(arhs)
        # the cursor must be saved before the callback in this iteration
        saves = [el for el, lhs, op, rhs in f.stores() if eq(strip(lhs), cur) and el.bid in body | {hdr.id} and
                 any(is_e(q, "fld") and q[2].startswith("evwatch::next.") for q in walk(rhs))]
        info["cursor"] = show(cur)
        info["saved_before_callback"] = [s.where() for s in saves if f.pos_dominates(s.pos(), cb.pos())]
        if not info["saved_before_callback"]:
            r3.inst((kind,), info)
            r3.bad("K9:%s:watchers[%s]:cursor-not-saved" % (f.name, kind), ael.where(), f.name, "the cursor %s is not loaded from the list before the callback" % show(cur))
            continue
        if is_e(cur, "var") and cur[2] == "local":
            r3.inst((kind,), info)
            r3.bad("K9:%s:watchers[%s]:cursor-not-repairable" % (f.name, kind), ael.where(), f.name,
                   "the saved next pointer is a local variable: a callback that frees that next watcher leaves it dangling (the property allows freeing other watchers)")
            continue
        # every unlinker repairs the cursor
        fieldname = cur[2] if is_e(cur, "fld") else None
        rep = {}
        for g in unlinkers:
            if g.name in ("event_base_free_",):
                rep[g.name] = "teardown: the loop is not running"
                continue
            ok = False
            for el, lhs, op, rhs in g.stores():
                l = strip(lhs)
                if fieldname and is_e(l, "fld") and l[2] == fieldname:
                    gs = [negate_truth(c, t) for c, t, _ in g.guards_at(el.bid)]
                    if any(t and is_e(strip(c), "bin") and strip(c)[1] == "==" and any(is_e(q, "fld") and q[2] == fieldname for q in walk(c)) for c, t in gs):
                        # and it happens before the unlink
                        ok = True
            rep[g.name] = ok
        info["unlinkers_repair_cursor"] = rep
        r3.inst((kind,), info)
        for gname, ok in rep.items():
            if ok is False:
                r3.bad("K9:%s:watchers:unlink-without-cursor-repair" % gname, "%s:%d" % (P.fn(gname).file, P.fn(gname).line), gname,
                       "%s unlinks a watcher but does not step the loop's cursor %s over it" % (gname, show(cur)))
    if not unlinkers:
        r3.brk("no function unlinking watchers found")
    rules.append(r3)
    # ---- who may move the traversal cursor
    r4 = Rule("C45-cursor", "K2", "base->watcher_next (the cursor shared by the prepare and the check traversal) is written only by the traversals and by evwatch_free's repair", floor=3)
    for g in P.all_fns:
        for el, lhs, op, rhs in g.stores():
            if fields_of(lhs)[-1:] != ["event_base.watcher_next"]:
                continue
            if g.name == "event_base_loop":
                ok, why = True, "traversal"
            elif g.name == "evwatch_free":
                gs = [negate_truth(c, t) for c, t, _ in g.guards_at(el.bid)]
                ok = any(t and is_e(strip(c), "bin") and strip(c)[1] == "==" and any(is_e(q, "fld") and q[2] == "event_base.watcher_next" for q in walk(c)) for c, t in gs)
                why = "repair when the freed watcher is the cursor"
            else:
                ok, why = False, None
            r4.inst((g.name, el.n), {"fn": g.name, "site": el.where(), "store": show(el.e)[:70], "role": why})
            if not ok:
                r4.bad("K2:%s:writes-watcher-cursor" % g.name, el.where(), g.name,
                       "%s moves base->watcher_next: the cursor is shared by the prepare and the check traversal, a write from outside them makes a traversal visit watchers of the other kind or visit one twice" % g.name)
    rules.append(r4)
    return rules
