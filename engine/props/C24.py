"""C24 — HTTP client response framing: the message-body framing decision equals RFC 9112 section 6.1/6.3 on the abstract header domain (K6)."""
from ..core import Rule
from ..prog import *
from ..facts import AnalysisBroken
from .. import httpframe as H
from .. import chunked as CH
from .. import httperr as HE

UNITS = ["http"]
LEVEL = "other"
CONFIGS = ["build", "assert"]
KIND = H.RESPONSE
WHAT = "response"
EXPLANATION = (
    "Only the framing DECISION of the property: how the client decides whether a response has a body and where it ends. evhttp_response_needs_body, evhttp_get_body and "
    "evhttp_get_body_length are evaluated from their extracted CFGs (typed C semantics) on every combination of status class (200, 404, 204, 304, 100, 103, 199, reply to HEAD) x "
    "Transfer-Encoding absent / chunked / Chunked / 'gzip, chunked' / gzip / 'chunked, gzip' / identity x Content-Length absent / digits / zero / leading '+' / empty / junk / "
    "negative x Connection absent / close / keep-alive (1176 cases) and compared with RFC 9112 6.3: no body for HEAD, 1xx, 204, 304; final coding chunked -> chunked; another final "
    "coding -> until close whatever Content-Length says; Content-Length 1*DIGIT -> that length, anything else -> failure; neither -> until close. Found and repaired the same two "
    "defects as C23 on the response side. One known finding is recorded and not repaired: with neither length nor coding and a Connection field other than close libevent assumes an "
    "empty body (a deliberate heuristic for servers that keep the connection open; the RFC says read until close). Declined — the bulk of C24: grammar conformance of the "
    "response parser under every segmentation, 1xx other than 100 being interim, bytes after a complete response belonging to the next request, duplicate Content-Length.")
ASSUMPTIONS = ["evhttp_find_header returns the field value with surrounding white space removed", "evutil_strtoll behaves like strtoll"]


RESUME_EXC = {"evhttp_get_request_connection": "a connection that has just been accepted: nothing has been read from the socket yet, the first read event starts the parser"}
CONSUMERS = ("evhttp_read_firstline", "evhttp_read_header", "evhttp_read_body", "evhttp_read_trailer", "evhttp_get_body", "evhttp_read_cb")
ENDERS = ("evhttp_connection_fail_", "evhttp_connection_done", "evhttp_connection_free", "evhttp_lingering_fail", "evhttp_lingering_close", "evhttp_connection_reset_",
          "evhttp_send_error", "evhttp_send_reply", "evhttp_send_page_")      # a reply written at this point ends the reading of this request


def rule_read_resume(P):
    """a message whose bytes are already in the input buffer must not depend on another segment arriving: whoever puts the connection into a READING state either goes on parsing at once,
    or schedules the deferred read when the input buffer is not empty (evhttp_start_read_), or ends the exchange"""
    r = Rule("C24-read-resume", "K3", "every switch of evcon->state to a READING state is followed on every path by parsing the buffered input, by scheduling the deferred read for it, or by the end of "
             "the exchange (what a response is must not depend on how the stream is segmented)", floor=4)
    vals = {}
    for nm in ("EVCON_READING_FIRSTLINE", "EVCON_READING_HEADERS", "EVCON_READING_BODY", "EVCON_READING_TRAILER"):
        vals[P.enum_val(nm)] = nm
    for f in P.fns_in("http.c"):
        for el, lhs, op, rhs in f.stores():
            if op != "=" or fields_of(lhs)[-1:] != ["evhttp_connection.state"]:
                continue
            try:
                v = evalx(rhs, {}, P)
            except Exception:
                v = None
            if v not in vals:
                continue

            def settled(x):
                if x.e[0] == "call":
                    n = callee_name(x.e)
                    if n in CONSUMERS or n in ENDERS:
                        return True
                    if n == "event_deferred_cb_schedule_" and any(is_e(q, "fld") and q[2] == "evhttp_connection.read_more_deferred_cb" for q in walk(x.e)):
                        return True
                    if n in ("evhttp_start_read_",):
                        return True
                if x is not el and x.e[0] == "asg" and fields_of(x.e[2])[-1:] == ["evhttp_connection.state"]:
                    return True          # the next switch is judged on its own
                return False

            def skip_edge(blk, succ, lab):
                # `if (evbuffer_get_length(input)) schedule...`: on the edge where the buffer is empty there is nothing to resume
                c = blk.term.get("cond") if blk.term else None
                if c is None or not any(is_e(q, "call") and callee_name(q) == "evbuffer_get_length" for q in walk(c)):
                    return False
                c2, t = negate_truth(c, True)
                if is_e(strip(c2), "call") and callee_name(strip(c2)) == "evbuffer_get_length":
                    return lab == ("F" if t else "T")
                return False
            w = f.exit_reachable_avoiding(el.pos(), settled, skip_edge=skip_edge)
            exc = RESUME_EXC.get(f.name)
            r.inst((f.name, el.n), {"fn": f.name, "site": el.where(), "state": vals[v], "leaves_buffered_input_unread_at": (w.where() if hasattr(w, "where") else "end of function") if w else None,
                                    "exception": exc})
            if w and not exc:
                r.bad("K3:%s:buffered-input-not-resumed:%s" % (f.name, vals[v]), el.where(), f.name,
                      "the connection is switched to %s and the function returns (%s) without parsing the input buffer, scheduling read_more_deferred_cb for it, or ending the exchange: bytes of the "
                      "message that arrived in the same segment are looked at only when MORE bytes arrive - a complete response stays unread" % (vals[v], w.where() if hasattr(w, "where") else "falls off its end"))
    return r


def run(ctx, config):
    P = ctx.prog(UNITS, config)
    r = Rule("%s-framing" % __name__.split(".")[-1], "K6", "%s body framing decision equals RFC 9112 6.1/6.3 on the abstract header domain" % WHAT, floor=250)
    nb = 0
    for s in H.scenarios(KIND):
        got = H.evaluate(P, s)
        want = H.rfc_decision(s)
        if want == ("length", 0):
            want = ("none",)
        if got == ("length", 0):
            got = ("none",)
        r.inst(s.key(), {"transfer_encoding": s.te, "content_length": list(s.cl) if s.cl else None, "connection": s.conn, "method_may_have_body": s.may, "status": s.code, "head": s.head,
                         "libevent": list(got), "rfc9112": list(want)})
        if got[0] == "unknown":
            r.brk("framing evaluation: %s" % got[1])
            break
        if got != want:
            sig = "te=%s:cl=%s:conn=%s" % ("chunked-final" if s.te and s.te.split(",")[-1].strip().lower() == "chunked" else ("other" if s.te else "none"), s.cl[0] if s.cl else "none",
                                           (s.conn or "none") if KIND == H.RESPONSE else "-")
            key = "K6:evhttp_get_body:framing:%s:%s:%s->%s" % (WHAT, sig, want[0], got[0])
            if nb < 40:
                nb += 1
                f = P.fn("evhttp_get_body")
                r.bad(key, "%s:%d" % (f.file, f.line), f.name,
                      "%s with Transfer-Encoding %r, Content-Length %s, Connection %r%s: libevent frames it as %s, RFC 9112 says %s" % (
                          WHAT, s.te, s.cl, s.conn, (", status %d%s" % (s.code, " to HEAD" if s.head else "")) if KIND == H.RESPONSE else "", got, want))
    # de-duplicate findings by key (many scenarios share one cause)
    seen, uniq = set(), []
    for f_ in r.findings:
        if f_.key not in seen:
            seen.add(f_.key)
            uniq.append(f_)
    r.findings = uniq
    return [r, CH.rule_chunked(P, "%s-chunked" % __name__.split(".")[-1], WHAT)] + ([HE.rule_error_cb(P, "C24-eof"), rule_read_resume(P)] if KIND == H.RESPONSE else [])
