"""C24 — HTTP client response framing: the message-body framing decision equals RFC 9112 section 6.1/6.3 on the abstract header domain (K6)."""
from ..core import Rule
from ..prog import *
from ..facts import AnalysisBroken
from .. import httpframe as H
from .. import chunked as CH
from .. import httperr as HE

UNITS = ["http"]
LEVEL = "other"
CONFIGS = ["build", "assert"]
KIND = H.RESPONSE
WHAT = "response"
EXPLANATION = (
    "Only the framing DECISION of the property: how the client decides whether a response has a body and where it ends. evhttp_response_needs_body, evhttp_get_body and "
    "evhttp_get_body_length are evaluated from their extracted CFGs (typed C semantics) on every combination of status class (200, 404, 204, 304, 100, 103, 199, reply to HEAD) x "
    "Transfer-Encoding absent / chunked / Chunked / 'gzip, chunked' / gzip / 'chunked, gzip' / identity x Content-Length absent / digits / zero / leading '+' / empty / junk / "
    "negative x Connection absent / close / keep-alive (1176 cases) and compared with RFC 9112 6.3: no body for HEAD, 1xx, 204, 304; final coding chunked -> chunked; another final "
    "coding -> until close whatever Content-Length says; Content-Length 1*DIGIT -> that length, anything else -> failure; neither -> until close. Found and repaired the same two "
    "defects as C23 on the response side. One known finding is recorded and not repaired: with neither length nor coding and a Connection field other than close libevent assumes an "
    "empty body (a deliberate heuristic for servers that keep the connection open; the RFC says read until close). Declined — the bulk of C24: grammar conformance of the "
    "response parser under every segmentation, 1xx other than 100 being interim, bytes after a complete response belonging to the next request, duplicate Content-Length.")
ASSUMPTIONS = ["evhttp_find_header returns the field value with surrounding white space removed", "evutil_strtoll behaves like strtoll"]


def run(ctx, config):
    P = ctx.prog(UNITS, config)
    r = Rule("%s-framing" % __name__.split(".")[-1], "K6", "%s body framing decision equals RFC 9112 6.1/6.3 on the abstract header domain" % WHAT, floor=250)
    nb = 0
    for s in H.scenarios(KIND):
        got = H.evaluate(P, s)
        want = H.rfc_decision(s)
        if want == ("length", 0):
            want = ("none",)
        if got == ("length", 0):
            got = ("none",)
        r.inst(s.key(), {"transfer_encoding": s.te, "content_length": list(s.cl) if s.cl else None, "connection": s.conn, "method_may_have_body": s.may, "status": s.code, "head": s.head,
                         "libevent": list(got), "rfc9112": list(want)})
        if got[0] == "unknown":
            r.brk("framing evaluation: %s" % got[1])
            break
        if got != want:
            sig = "te=%s:cl=%s:conn=%s" % ("chunked-final" if s.te and s.te.split(",")[-1].strip().lower() == "chunked" else ("other" if s.te else "none"), s.cl[0] if s.cl else "none",
                                           (s.conn or "none") if KIND == H.RESPONSE else "-")
            key = "K6:evhttp_get_body:framing:%s:%s:%s->%s" % (WHAT, sig, want[0], got[0])
            if nb < 40:
                nb += 1
                f = P.fn("evhttp_get_body")
                r.bad(key, "%s:%d" % (f.file, f.line), f.name,
                      "%s with Transfer-Encoding %r, Content-Length %s, Connection %r%s: libevent frames it as %s, RFC 9112 says %s" % (
                          WHAT, s.te, s.cl, s.conn, (", status %d%s" % (s.code, " to HEAD" if s.head else "")) if KIND == H.RESPONSE else "", got, want))
    # de-duplicate findings by key (many scenarios share one cause)
    seen, uniq = set(), []
    for f_ in r.findings:
        if f_.key not in seen:
            seen.add(f_.key)
            uniq.append(f_)
    r.findings = uniq
    return [r, CH.rule_chunked(P, "%s-chunked" % __name__.split(".")[-1], WHAT)] + ([HE.rule_error_cb(P, "C24-eof")] if KIND == H.RESPONSE else [])
