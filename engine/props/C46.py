"""C46 — random choices stay in range: evaluation of evutil_weakrand_range_ (K6), range/argument agreement at every caller (K8/K4), secure RNG forwarding (K8)."""
from ..core import Rule
from ..prog import *
from ..facts import AnalysisBroken
from ..interp import normx, nkey, run_all

UNITS = ["evutil", "evutil_rand", "poll", "select", "bufferevent_ratelim"]
LEVEL = "other"
CONFIGS = ["build", "assert"]
EXPLANATION = (
    "Q1: evutil_weakrand_range_ is evaluated with C integer semantics for top in {1,2,3,7,100,2^20,2^30,2^31-1} x generator outputs in {0,1,top-1 scaled, "
    "mid, 2^31-1}: it returns only values r with 0 <= r < top (outputs that would map to >= top are drawn again), and evutil_weakrand_ masks its state to 31 bits "
    "(so the quotient cannot be negative). Q2: at every caller the `top` argument is positive on the path (dominating non-empty test) and is the SAME quantity that "
    "bounds what the result is used for: in the poll and select dispatch functions the start index is drawn from the very variable that the scan wraps at and that "
    "sized the snapshot handed to the system call (not from a live counter another thread may have advanced); the scan visits exactly `top` slots and wraps to 0; "
    "the rate-limit group picks among n_members only when it is non-zero and walks at most that many links. Q3: evutil_secure_rng_get_bytes forwards its buffer "
    "and length unchanged to the generator. Declined: bounded running time for every generator state; statistical quality.")
ASSUMPTIONS = ["evutil_weakrand_ returns values in [0, 2^31-1]"]

MAXR = 0x7fffffff


def rule_range(P):
    r = Rule("C46-range", "K6", "evutil_weakrand_range_ returns only 0 <= r < top", floor=30)
    f = P.fn("evutil_weakrand_range_")
    topn = f.params[1][0]
    calls = list(f.calls("evutil_weakrand_"))
    if len(calls) != 1:
        r.brk("expected one evutil_weakrand_ call")
        return r
    nb = 0
    for top in (1, 2, 3, 7, 100, 1 << 20, 1 << 30, MAXR):
        div = MAXR // top
        outs_ = sorted(set([0, 1, div * top - 1 if div * top - 1 >= 0 else 0, min(MAXR, div * top), min(MAXR, div * top + 1), MAXR // 2, MAXR]))
        for first in outs_:
            env = {"#typed": 1, f.params[0][0]: 1, topn: top}
            def hook(el, e_):
                if callee_name(el.e) == "evutil_weakrand_":
                    k = e_.get("#draws", 0)
                    e_["#draws"] = k + 1
                    return first if k == 0 else 0      # second draw is 0 (always in range)
                return None
            for o in run_all(f, (f.entry, 0), env, lambda el: False, P, hook, max_steps=200):
                if o.kind != "ret":
                    r.brk("evutil_weakrand_range_(top=%d, rand=%d): %s %s" % (top, first, o.kind, o.why))
                    return r
                try:
                    ret = evalx(normx(o.at.e[1]), o.env, P)
                except EvalError:
                    ret = None
                draws = o.env.get("#draws")
                want_first = first // div
                r.inst((top, first), {"top": top, "generator_output": first, "returned": ret, "draws": draws})
                # the property is the range (and a bounded number of draws), not a particular mapping of generator outputs to results
                ok = ret is not None and 0 <= ret < top and draws is not None and draws <= 2
                if not ok and nb < 3:
                    nb += 1
                    r.bad("K6:evutil_weakrand_range_:out-of-range", "%s:%d" % (f.file, f.line), f.name, "top=%d, generator output %d: returns %s after %s draws; documented a value in [0,%d)" % (top, first, ret, draws, top))
    g = P.fn("evutil_weakrand_")
    masked = any(op == "=" and fields_of(lhs)[-1:] == ["evutil_weakrand_state.seed"] and is_e(strip(rhs), "bin") and strip(rhs)[1] == "&" and is_e(strip(strip(rhs)[3]), "int") and strip(strip(rhs)[3])[1] == MAXR
                 for el, lhs, op, rhs in g.stores())
    r.inst("mask", {"state_masked_to_31_bits": masked})
    if not masked:
        r.bad("K4:evutil_weakrand_:not-masked", "%s:%d" % (g.file, g.line), g.name, "the generator state is not masked to 31 bits: the value can be negative and the range division misbehaves")
    return r


def rule_callers(P):
    r = Rule("C46-callers", "K8/K4", "callers: top is positive and is the quantity that bounds the use of the result", floor=3)
    for f in P.all_fns:
        for c in f.calls("evutil_weakrand_range_"):
            top = strip(c.e[2][1])
            blk = f.blocks[c.bid]
            nxt = blk.elems[c.idx + 1] if c.idx + 1 < len(blk.elems) else None
            resv = strip(nxt.e[2]) if nxt is not None and nxt.e[0] == "asg" else (["var", nxt.e[1], "local"] if nxt is not None and nxt.e[0] == "decl" else None)
            # positivity: a dominating guard excludes top == 0 / top <= 0
            gs = [negate_truth(cc, t) for cc, t, _ in f.guards_at(c.bid)]
            pos = False
            for cc, t in gs:
                cc = strip(cc)
                if eq(cc, top) and t:
                    pos = True
                if is_e(cc, "bin") and cc[1] == "||" and not t:
                    for q in walk(cc):
                        if is_e(q, "bin") and q[1] == "==" and eq(strip(q[2]), top) and is_e(strip(q[3]), "int") and strip(q[3])[1] == 0:
                            pos = True
                if is_e(cc, "bin") and cc[1] == "==" and eq(strip(cc[2]), top) and is_e(strip(cc[3]), "int") and strip(cc[3])[1] == 0 and not t:
                    pos = True
            if f.name.endswith("_dispatch") and not pos:
                # select: nfds = event_fds + 1 with event_fds >= -1 ... accept `top = X + 1` definitions and the poll test `res == 0 || nfds == 0`
                if is_e(top, "var"):
                    for d, rhs in f.var_stores(top[1]):
                        rr = strip(rhs)
                        if is_e(rr, "bin") and rr[1] == "+" and is_e(strip(rr[3]), "int") and strip(rr[3])[1] >= 1:
                            pos = True
            # agreement: the wrap test and the scan bound use `top`
            wraps = []
            bounds = []
            if resv is not None and is_e(resv, "var"):
                for b in f.branch_blocks():
                    cnd = strip(b.term["cond"])
                    if is_e(cnd, "bin") and cnd[1] in ("==", ">=") and any(is_e(q, "incdec") and eq(strip(q[3]), resv) for q in walk(cnd[2])):
                        wraps.append(strip(cnd[3]))
                    if is_e(cnd, "bin") and cnd[1] == "<" and f.loops_of(b.id) and is_e(strip(cnd[2]), "var") and strip(cnd[2])[1] != resv[1] and b.term.get("k") == "for":
                        bounds.append(strip(cnd[3]))
            r.inst((f.name, c.n), {"fn": f.name, "site": c.where(), "top": show(top), "positive_on_path": pos, "wrap_at": [show(w) for w in wraps], "scan_bound": [show(b) for b in bounds]})
            if not pos:
                r.bad("K4:%s:top-not-positive" % f.name, c.where(), f.name, "evutil_weakrand_range_ is called with `%s` without a dominating test that it is positive (division by zero / endless loop)" % show(top))
            for w in wraps:
                if not eq(w, top):
                    r.bad("K8:%s:wrap-bound-differs" % f.name, c.where(), f.name,
                          "the random start is drawn from [0,%s) but the scan wraps at `%s`: when the two differ (e.g. another thread added descriptors while the loop slept) the index runs past the scanned array" % (show(top), show(w)))
            for b in bounds:
                if not eq(b, top):
                    r.bad("K8:%s:scan-bound-differs" % f.name, c.where(), f.name, "the scan visits `%s` slots but the start index is drawn from [0,%s)" % (show(b), show(top)))
            # poll/select: the same variable sized the system call
            if f.name in ("poll_dispatch", "select_dispatch"):
                sysc = [x for x in f.calls() if callee_name(x.e) in ("poll", "select")]
                ok = bool(sysc) and any(eq(strip(a), top) for a in sysc[0].e[2])
                r.inst((f.name, "syscall"), {"fn": f.name, "syscall_uses_same_count": ok}, nontrivial=False)
                if not ok:
                    r.bad("K8:%s:count-differs-from-syscall" % f.name, c.where(), f.name, "the count handed to %s() is not `%s`, the range of the random start" % (callee_name(sysc[0].e) if sysc else "the system call", show(top)))
    return r


def rule_snapshot(P):
    """the range a starting index is chosen from is the descriptor count that was handed to select()/poll(): the result sets are only valid for that count"""
    r = Rule("C46-snapshot", "K8", "the bound used for the random start and the scan is the value given to the system call (not re-read after the wait)", floor=2)
    for fname, sysc in (("select_dispatch", "select"), ("poll_dispatch", "poll")):
        f = P.fn(fname)
        sc = [el for el in f.calls(sysc)]
        rc = [el for el in f.calls("evutil_weakrand_range_")]
        if len(sc) != 1 or len(rc) != 1:
            r.brk("%s: expected one %s() and one evutil_weakrand_range_ call" % (fname, sysc))
            continue
        top = strip(rc[0].e[2][1])
        if not is_e(top, "var"):
            r.brk("%s: range bound is not a variable" % fname)
            continue
        # no store to the bound variable on any path from the system call to the choice (or to any later use in the scan loop)
        def store_to(x):
            if x.e[0] == "asg" and eq(strip(x.e[2]), top):
                return True
            if x.e[0] == "incdec" and eq(strip(x.e[3]), top):
                return True
            return x.e[0] == "decl" and x.e[1] == top[1]
        w = f.path_avoiding(sc[0].pos(), store_to, lambda x: False)
        # the bound is what the system call got (directly or +1/-1 of it)
        sysargs = [q for a in sc[0].e[2] for q in walk(a) if is_e(q, "var")]
        related = any(eq(q, top) for q in sysargs)
        r.inst(fname, {"fn": fname, "syscall": sc[0].where(), "bound": show(top), "bound_given_to_syscall": related, "rewritten_after_wait": w.where() if w is not None else None})
        if w is not None:
            r.bad("K8:%s:bound-reread-after-wait" % fname, w.where(), fname,
                  "%s is assigned again after %s() returned: the result sets were filled for the count given to the call, a larger count scans (and picks a start in) memory the kernel did not fill" % (show(top), sysc))
        elif not related:
            r.bad("K8:%s:bound-not-the-syscall-count" % fname, rc[0].where(), fname, "the range bound %s is not the descriptor count handed to %s()" % (show(top), sysc))
    return r


def rule_secure(P):
    """the whole requested buffer is filled: whatever pieces evutil_secure_rng_get_bytes hands to the generator, together they cover [buf, buf+n) exactly (decided by evaluation, so a
    chunked implementation is judged by its pieces, not by its spelling)"""
    from ..interp import normx, run_all
    r = Rule("C46-secure", "K6/K8", "evutil_secure_rng_get_bytes: the pieces handed to the generator cover the requested buffer exactly, for every length tried", floor=8)
    f = P.fn("evutil_secure_rng_get_bytes")
    BUF = 100000
    for n in (0, 1, 31, 32, 255, 256, 257, 512, 1000, 4096, 65536 + 5, (1 << 20) - 1):
        env = {"#typed": 1, f.params[0][0]: BUF, f.params[1][0]: n, "#pieces": ()}

        def hook(el, e_):
            if callee_name(el.e) in ("arc4random_buf", "ev_arc4random_buf"):
                try:
                    a, k = evalx(normx(el.e[2][0]), e_, P), evalx(normx(el.e[2][1]), e_, P)
                except EvalError:
                    return "impure"
                e_["#pieces"] = e_["#pieces"] + ((a, k),)
                return 0
            return None
        outs = [o for o in run_all(f, (f.entry, 0), env, lambda el: False, P, hook, max_steps=200000) if not (o.kind == "exit" and o.why == "noreturn")]
        for o in outs:
            if o.kind not in ("ret", "exit"):
                r.brk("evutil_secure_rng_get_bytes(%d): %s %s" % (n, o.kind, o.why))
                return r
            pieces = list(o.env["#pieces"])
            covered = set()
            outside = False
            for a, k in pieces:
                if not (isinstance(a, int) and isinstance(k, int)) or k < 0 or k > 1 << 21:
                    outside = True
                    continue
                for x in range(a, a + k):
                    if BUF <= x < BUF + n:
                        covered.add(x)
                    else:
                        outside = True
            r.inst(n, {"requested": n, "pieces": [[a - BUF if isinstance(a, int) else str(a), k] for a, k in pieces][:6], "bytes_filled": len(covered)})
            if len(covered) != n or outside:
                missing = sorted(set(range(BUF, BUF + n)) - covered)
                r.bad("K8:evutil_secure_rng_get_bytes:args", "%s:%d" % (f.file, f.line), f.name,
                      "a request for %d bytes: the generator is given the pieces (offset, length) %s - %s" % (
                          n, [[a - BUF if isinstance(a, int) else str(a), k] for a, k in pieces][:6],
                          ("bytes %d..%d of the buffer are never filled" % (missing[0] - BUF, missing[-1] - BUF)) if missing else "bytes outside the buffer are written"))
    return r


def run(ctx, config):
    P = ctx.prog(UNITS, config)
    return [rule_range(P), rule_callers(P), rule_secure(P), rule_snapshot(P)]
