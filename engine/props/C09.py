"""C09 — cross-thread safety: lockset protection of the base's shared state (K1 requires), wake-up after making work visible (K3/K6), delete waits for the running callback (K6)."""
from ..core import Rule
from ..prog import *
from ..facts import AnalysisBroken
from ..interp import normx, nkey, run_all
from ..fsm import Machine, EVLIST as L, EV
from ..lockset import Held

UNITS = None
LEVEL = "other"
CONFIGS = ["build", "assert"]
EXPLANATION = (
    "R1 (static lockset): every read or write of the event_base fields that the loop and other threads share (active/later queues, timer heap, common "
    "queues, counters, current_event*, is_notify_pending, loop-control flags, running_loop, io/signal maps, change list, watchers, once_events, time cache) "
    "in event.c/evmap.c/signal*.c/the backends/watch.c happens at a program point where th_base_lock is held on every path — computed by a must-held forward "
    "dataflow per function (NULL-lock edge pruned) and the greatest fixpoint of 'internal function only ever entered with the lock held' over direct calls, "
    "eventop slots and function-pointer arguments; constructors/destructors (object not shared) are exempt by closure, one named exception. "
    "R2 (wake-up): with the caller fixed to a foreign thread and the loop running, every outcome of event_active_nolock_/event_callback_activate*_nolock_ that "
    "newly queues a callback, of event_add_nolock_ where the backend map reports a new registration, and of event_del_nolock_ where it reports a removal, "
    "calls evthread_notify_base (flag machine, all flag values); evthread_notify_base sets is_notify_pending before calling the notify function and skips when "
    "already pending; only the two drain callbacks clear it. "
    "R3 (delete waits): event_del_nolock_, for every flag value x blocking mode x (this event is / is not the running callback) x (caller in / not in the loop "
    "thread) x EV_FINALIZE: waits on current_event_cond exactly when blocking != NOBLOCK, the event's callback is running, the caller is another thread and "
    "(BLOCK or not EV_FINALIZE), having counted itself in current_event_waiters; the loop clears current_event and broadcasts to waiters after every callback, "
    "under the lock. Declined: general data-race freedom on user-visible objects and interleaving semantics.")
ASSUMPTIONS = ["locking is enabled (lock pointers non-NULL)", "user callbacks run without th_base_lock (C08)"]

FILES = ("event.c", "evmap.c", "signal.c", "signalfd.c", "epoll.c", "poll.c", "select.c", "minheap-internal.h", "evmap-internal.h", "event-internal.h", "watch.c")
PROT = set("event_base." + x for x in ("activequeues active_later_queue timeheap common_timeout_queues n_common_timeouts event_count event_count_active "
                                        "virtual_event_count current_event current_event_waiters is_notify_pending event_break event_gotterm event_continue "
                                        "running_loop io sigmap changelist watchers once_events event_running_priority n_deferreds_queued tv_cache").split())
CONSTRUCTORS = ("event_base_new_with_config", "event_base_free_")
EXC = {("event_loopexit_cb", "event_base.event_gotterm"): "single int flag set by the loop thread's own once-callback; the loop reads it in the same thread, event_base_got_exit tolerates a stale value"}


def rule_lockset(P):
    r = Rule("C09-lockset", "K1", "shared event_base state is accessed only with th_base_lock held (must-held dataflow + entered-held fixpoint)", floor=150)
    H = Held(P, "event_base.th_base_lock", FILES, slot_held=("eventop.add", "eventop.del", "eventop.dispatch"))
    hs = H.entry_held_set(exempt_callers=CONSTRUCTORS)
    r.notes.append({"entered_with_lock_held": len(hs), "exempt_not_shared": sorted(H.exempt)})
    if len(hs) < 60:
        r.brk("only %d functions are recognised as entered with the lock held (expected about 100): call-graph or lock-event recognition changed" % len(hs))
    for f in H.fns:
        if f.name in H.exempt:
            continue
        eh = f.name in hs
        for b in f.blocks.values():
            pts = [(el, el.e, None) for el in b.elems]
            if b.term and b.term.get("cond") is not None:
                pts.append((None, b.term["cond"], b))
            for el, e, tb in pts:
                fl = sorted(set(q[2] for q in walk(e) if is_e(q, "fld") and q[2] in PROT))
                if not fl:
                    continue
                held = H.held_at(f, el, eh) if el is not None else H.held_at_term(f, tb.id, eh)
                where = el.where() if el is not None else "%s:%d" % (f.file, tb.term["loc"][0])
                r.inst((f.name, where, tuple(fl)), {"fn": f.name, "site": where, "fields": [x.split(".")[1] for x in fl], "entered_held": eh, "held": held})
                if not held:
                    for x in fl:
                        if (f.name, x) in EXC:
                            continue
                        r.bad("K1:%s:unlocked-access:%s" % (f.name, x.split(".")[1]), where, f.name,
                              "%s is accessed without th_base_lock held on every path to this point%s" % (
                                  x.split(".")[1], "" if f.public else " (the function is not always entered with the lock held: some caller calls it unlocked)"))
    return r


def rule_notify(P):
    r = Rule("C09-notify", "K6/K3", "work made visible from a foreign thread always wakes the loop; is_notify_pending protocol", floor=60)
    M = Machine(P, thread_id=6, globals_={"evthread_id_fn_": 1})   # caller's thread id 6, owner 5
    FOREIGN = {"running_loop": 1, "owner": 5, "lock": 0, "cond": 1}
    def ex(fname):
        return None
    nbad = 0
    # activation
    for fname, args in (("event_active_nolock_", {"res": EV["READ"], "ncalls": 1}), ("event_callback_activate_nolock_", {}), ("event_callback_activate_later_nolock_", {}),
                        ("event_active_later_nolock_", {"res": EV["READ"]})):
        for fl in range(256):
            if not fl & L["INIT"] or fl & L["SIGNAL"] or (fl & L["ACTIVE"] and fl & L["ACTIVE_LATER"]):
                continue
            st = dict({"flags": fl, "res": 0, "events": EV["READ"], "count": 10, "active": 5, "pri": 1, "running_pri": -1, "continue": 0}, **FOREIGN)
            for o in M.evaluate(fname, st, args):
                if o["unknown"]:
                    r.brk(o["unknown"])
                    return r
                newly = (o["st"]["flags"] & (L["ACTIVE"] | L["ACTIVE_LATER"])) and not (fl & (L["ACTIVE"] | L["ACTIVE_LATER"]))
                promoted = (o["st"]["flags"] & L["ACTIVE"]) and (fl & L["ACTIVE_LATER"])
                notified = "evthread_notify_base" in o["calls"]
                r.inst((fname, fl, o["calls"]), {"fn": fname, "flags": hex(fl), "after": hex(o["st"]["flags"]), "notified": notified})
                if (newly or promoted) and not notified and nbad < 3:
                    nbad += 1
                    f = P.fn(fname)
                    r.bad("K3:%s:no-wakeup-after-activation" % fname, "%s:%d" % (f.file, f.line), fname,
                          "called from another thread while the loop sleeps, flags %#x -> %#x queues a callback but does not call evthread_notify_base: the callback runs only when the loop wakes for another reason" % (fl, o["st"]["flags"]))
    # add / del
    for fname, args, key_ in (("event_add_nolock_", {"tv": 0, "tv_is_absolute": 0}, "evmap_io_add_"), ("event_del_nolock_", {"blocking": 0}, "evmap_io_del_")):
        for fl in (L["INIT"], L["INIT"] | L["INSERTED"], L["INIT"] | L["INSERTED"] | L["TIMEOUT"]):
            st = dict({"flags": fl, "res": 0, "events": EV["READ"] | EV["PERSIST"], "count": 10, "active": 5}, **FOREIGN)
            for o in M.evaluate(fname, st, args):
                if o["unknown"]:
                    r.brk(o["unknown"])
                    return r
                ch = dict(o["choices"])
                notified = "evthread_notify_base" in o["calls"]
                r.inst((fname, fl, o["choices"], notified), {"fn": fname, "flags": hex(fl), "backend_map_result": ch.get(key_), "notified": notified})
                if ch.get(key_) == 1 and not notified and nbad < 5:
                    nbad += 1
                    f = P.fn(fname)
                    r.bad("K3:%s:no-wakeup-after-registration-change" % fname, "%s:%d" % (f.file, f.line), fname,
                          "the backend map reports a changed registration (1) but the sleeping loop is not woken: the kernel wait keeps the old interest set")
    # timed add from a foreign thread: whenever the new deadline becomes the earliest one the loop must be told (for relative and for absolute
    # deadlines alike: the internal timer of a common-timeout queue is scheduled with an absolute deadline from whichever thread adds the event)
    f = P.fn("event_add_nolock_")
    if not list(f.calls("min_heap_elt_is_top_")):
        r.brk("event_add_nolock_ no longer calls min_heap_elt_is_top_: the wake-up-on-earlier-deadline clause cannot be located")
        return r
    M2 = Machine(P, thread_id=6, globals_={"evthread_id_fn_": 1})
    M2.EXTERNAL = dict(Machine.EXTERNAL, is_common_timeout=[0], min_heap_elt_is_top_=[0, 1])
    for absol in (0, 1):
        for fl in (L["INIT"], L["INIT"] | L["TIMEOUT"]):
            st = dict({"flags": fl, "res": 0, "events": 0, "count": 10, "active": 5}, **FOREIGN)
            for o in M2.evaluate("event_add_nolock_", st, {"tv": 7, "tv_is_absolute": absol}):
                if o["unknown"]:
                    r.brk(o["unknown"])
                    return r
                ch = dict(o["choices"])
                if ch.get("min_heap_reserve_") == -1:
                    continue
                notified = "evthread_notify_base" in o["calls"]
                top = ch.get("min_heap_elt_is_top_")
                r.inst(("timed", absol, top, fl, o["calls"]), {"fn": "event_add_nolock_", "absolute_deadline": absol, "new_deadline_is_earliest": top, "flags": hex(fl), "notified": notified})
                if top != 1 and not (top is None and "min_heap_push_" in o["calls"]):
                    continue
                if not notified and nbad < 8:
                    nbad += 1
                    r.bad("K3:event_add_nolock_:no-wakeup-for-earlier-deadline", "%s:%d" % (f.file, f.line), f.name,
                          "added from another thread with %s deadline that becomes the earliest one%s: the sleeping loop is not woken, it keeps waiting for the previous earliest timeout" % (
                              "an absolute" if absol else "a relative", "" if top == 1 else " (the is-it-the-earliest test is not even made)"))
    # notify protocol
    f = P.fn("evthread_notify_base")
    base = ["var", f.params[0][0], "param"]
    kp = nkey(["fld", base, "event_base.is_notify_pending", "->"])
    kf = nkey(["fld", base, "event_base.th_notify_fn", "->"])
    for pending in (0, 1):
        env = {base[1]: 1, kp: pending, kf: 1, nkey(["fld", base, "event_base.th_base_lock", "->"]): 0}
        def hook(el, e_):
            if callee_slot(el.e) == "event_base.th_notify_fn":
                e_["#called_with_pending"] = e_.get(kp)
                return 0
            return None
        for o in run_all(f, (f.entry, 0), env, lambda el: False, P, hook):
            if o.kind == "exit" and o.why == "noreturn":
                continue
            called = "#called_with_pending" in o.env
            r.inst(("proto", pending), {"already_pending": pending, "notify_fn_called": called, "pending_after": o.env.get(kp)})
            if pending and called:
                r.bad("K6:evthread_notify_base:duplicate-notify", "%s:%d" % (f.file, f.line), f.name, "writes to the notify fd although a notification is already pending (the pipe can fill up)")
            if not pending and (not called or o.env.get("#called_with_pending") != 1 or o.env.get(kp) != 1):
                r.bad("K6:evthread_notify_base:pending-flag", "%s:%d" % (f.file, f.line), f.name, "is_notify_pending is not set before the notify function runs (a racing second notifier would write again / the drain callback could clear a flag set later)")
    # who clears is_notify_pending
    for g in P.all_fns:
        for el, lhs, op, rhs in g.stores():
            if fields_of(lhs)[-1:] == ["event_base.is_notify_pending"]:
                v = strip(rhs)
                val = v[1] if is_e(v, "int") else None
                ok = (val == 1 and g.name == "evthread_notify_base") or (val == 0 and g.name in ("evthread_notify_drain_default", "evthread_notify_drain_eventfd", "event_reinit", "event_base_new_with_config"))
                r.inst(("pend", g.name, el.n), {"fn": g.name, "site": el.where(), "value": val}, nontrivial=False)
                if not ok:
                    r.bad("K2:%s:is_notify_pending" % g.name, el.where(), g.name, "is_notify_pending is written (%s) outside the notifier / the drain callbacks" % show(el.e))
    return r


def rule_delwait(P):
    r = Rule("C09-delwait", "K6", "event_del waits for the running callback exactly as documented; the loop wakes the waiters after every callback", floor=200)
    fname = "event_del_nolock_"
    f = P.fn(fname)
    ev = ["var", f.params[0][0], "param"]
    nbad = 0
    for in_thread in (0, 1):
        M = Machine(P, thread_id=5 if in_thread else 6, globals_={"evthread_id_fn_": 1})
        for running in (0, 1):
            for finalize in (0, EV["FINALIZE"]):
                for blocking in (0, 1, 2, 3):
                    for fl in (L["INIT"], L["INIT"] | L["INSERTED"], L["INIT"] | L["ACTIVE"], L["INIT"] | L["TIMEOUT"], L["INIT"] | L["INSERTED"] | L["ACTIVE_LATER"], L["INIT"] | L["FINALIZING"] | L["ACTIVE"]):
                        st = {"flags": fl, "res": 0, "events": EV["READ"] | finalize, "count": 10, "active": 5, "running_loop": 1, "owner": 5, "lock": 0, "cond": 1,
                              "current": 1 if running else 0, "waiters": 0}
                        for o in M.evaluate(fname, st, {"blocking": blocking}):
                            if o["unknown"]:
                                r.brk(o["unknown"])
                                return r
                            waited = "COND_WAIT" in o["calls"]
                            waiters = o["st"].get("waiters") or 0
                            early = (fl & L["FINALIZING"]) and blocking != 3
                            want = (not early) and blocking != 0 and running and not in_thread and (blocking == 1 or not finalize)
                            r.inst((in_thread, running, finalize, blocking, fl, o["choices"]), {"caller_in_loop_thread": bool(in_thread), "callback_running": bool(running), "EV_FINALIZE": bool(finalize),
                                                                                          "blocking": blocking, "flags": hex(fl), "waits": waited, "waiters": waiters})
                            if (waited != bool(want) or (waited and waiters != 1)) and nbad < 3:
                                nbad += 1
                                r.bad("K6:event_del_nolock_:wait-for-running-callback", "%s:%d" % (f.file, f.line), fname,
                                      "flags %#x, blocking=%d, callback running=%d, caller in loop thread=%d, EV_FINALIZE=%d: %s (waiters=%d); documented: %s" % (
                                          fl, blocking, running, in_thread, 1 if finalize else 0, "waits for the callback" if waited else "returns without waiting", waiters,
                                          "wait" if want else "no wait"))
    # the loop side: after every callback, under the lock, current_event = NULL and broadcast iff waiters
    g = P.fn("event_process_active_single_queue")
    base = ["var", g.params[0][0], "param"]
    sw = [b for b in g.branch_blocks() if b.term.get("k") == "switch"]
    H = Held(P, "event_base.th_base_lock", FILES, slot_held=("eventop.add", "eventop.del", "eventop.dispatch"))
    clears = [el for el, lhs, op, rhs in g.stores() if fields_of(lhs)[-1:] == ["event_base.current_event"] and is_e(strip(rhs), "int") and strip(rhs)[1] == 0 and sw and g.dominates(sw[0].id, el.bid)]
    bc = [el for el in g.calls() if callee_slot(el.e) == "evthread_condition_callbacks.signal_condition"]
    ok = False
    if sw and clears and bc:
        last = [c for c in clears if g.path_avoiding((sw[0].id, -1), lambda x: x in g.returns() or x is None, lambda x: x is c) is None]
        post = [c for c in clears if all(g.path_avoiding(c.pos(), lambda x: x is b, lambda x: False) is not None for b in bc)]
        held = all(H.held_at(g, c, True) for c in post) and all(H.held_at(g, b, True) for b in bc)
        gs = [negate_truth(c, t) for c, t, _ in g.guards_at(bc[0].bid)]
        guarded = any(t and any(is_e(q, "fld") and q[2] == "event_base.current_event_waiters" for q in walk(c)) for c, t in gs)
        # no return between the switch and the clear+broadcast
        early = g.exit_reachable_avoiding((sw[0].id, -1), lambda x: x in post)
        ok = bool(post) and held and guarded and early is None
    r.inst("loop-side", {"clear_and_broadcast_after_every_callback_under_lock": ok})
    if not ok:
        r.bad("K3:event_process_active_single_queue:waiters-not-woken", "%s:%d" % (g.file, g.line), g.name,
              "after a callback returns the loop does not, on every path and under the lock, clear current_event and broadcast to the threads blocked in event_del")
    return r


def rule_owner(P):
    r = Rule("C09-owner", "K3/K8", "the loop records the running thread as owner on every entry (IN_THREAD / NEED_NOTIFY depend on it)", floor=2)
    Ls = [x for x in P.fns_in("event.c") if any(True for _ in x.calls(slot="eventop.dispatch"))]
    if len(Ls) != 1:
        r.brk("loop function not identified")
        return r
    f = Ls[0]
    disp = list(f.calls(slot="eventop.dispatch"))[0]
    st = [el for el, lhs, op, rhs in f.stores() if fields_of(lhs)[-1:] == ["event_base.th_owner_id"]]
    fresh = [el for el in st if any(is_e(q, "call") and (q[1][0] == "ptr" or callee_name(q) in ("evthreadimpl_get_id_", "pthread_self")) for q in walk(el.e[3]))]
    w = f.path_avoiding((f.entry, -1), lambda x: x is disp, lambda x: x in fresh)
    r.inst("owner", {"fn": f.name, "owner_stores": [x.where() for x in st], "from_thread_id_call": [x.where() for x in fresh], "dispatch_reachable_without_store": bool(w)})
    if not fresh or w is not None:
        r.bad("K3:%s:owner-not-recorded" % f.name, disp.where(), f.name,
              "the backend wait can be reached without th_owner_id being set to the current thread on this entry (a base looped by a second thread keeps the first thread as owner: "
              "cross-thread calls from it are taken for in-thread calls — no wake-up, no wait for the running callback)")
    clr = [el for el, lhs, op, rhs in f.stores() if fields_of(lhs)[-1:] == ["event_base.running_loop"]]
    r.inst("running", {"running_loop_stores": [show(x.e) for x in clr]})
    return r


def run(ctx, config):
    P = ctx.prog(UNITS, config)
    return [rule_lockset(P), rule_notify(P), rule_delwait(P), rule_owner(P)]
