"""C07 — signal events: save/restore structure of handlers, the process-wide handler target, map bookkeeping, delivery counts (K2/K8/K11/K3/K4/K5)."""
from ..core import Rule
from ..prog import *
from ..facts import AnalysisBroken
from ..interp import normx, nkey, run_all
from ..fsm import Machine, EVLIST as L, EV

UNITS = ["signal", "signalfd", "evmap", "event"]
LEVEL = "other"
CONFIGS = ["build", "assert"]
EXPLANATION = (
    "G1 (who-may-call, all units): sigaction/signal/sigprocmask/signalfd are called only by the four handler functions (evsig_set_handler_, "
    "evsig_restore_handler_, sigfd_add, sigfd_del; evsig_handler re-arms with signal() only on platforms without sigaction). "
    "G2 (provenance/ownership): the installing sigaction saves the old disposition into the slot sh_old[sig] of the very signal it installs, the slot is "
    "allocated before and released+nulled on the failure edge; the restoring sigaction passes the value loaded from the slot of the same signal, the slot "
    "is nulled and the memory freed once. G3: every function in the `del` slot of a signal eventop reaches the restore on every success path, and "
    "evsig_dealloc_ restores every non-NULL slot in a loop over all signal numbers. G4: evmap_signal_add_ calls the backend exactly when the per-signal list "
    "was empty (evaluated) and inserts nothing on backend failure; evmap_signal_del_ unlinks first and calls the backend exactly when the list became empty. "
    "G5: evsig_cb counts one per byte read into the slot of that byte's signal number and reports each non-zero count with its own index; "
    "evmap_signal_active_ forwards EV_SIGNAL and the count; event_signal_closure runs the callback at most ncalls times and stops when the count is "
    "zeroed; event_del_nolock_ and a timeout re-add zero the running count of a signal event (evaluated for every flag value). "
    "G6 (pairing): the process-wide handler target (evsig_base, evsig_base_fd) is always written together under the same guard, and is reset only under "
    "`base == evsig_base`. Declined: delivery counts under asynchronous signals, fork+reinit behaviour.")
ASSUMPTIONS = ["sigaction(sig, act, oldact) semantics", "one byte is written to the self-pipe per handler invocation"]

SIGCALLS = {"sigaction", "signal", "sigprocmask", "signalfd", "pthread_sigmask", "sigaltstack"}
HANDLERS = {"evsig_set_handler_", "evsig_restore_handler_", "sigfd_add", "sigfd_del"}


def slot_of(e):
    """(index expr) if e is sig->sh_old[idx] (any base), else None"""
    e = strip(e)
    if is_e(e, "idx") and fields_of(e)[-1:] == ["evsig_info.sh_old"]:
        return e[2]
    return None


def rule_who(Pall):
    r = Rule("C07-who", "K2", "signal-disposition system calls only in the handler functions", floor=6)
    for f in Pall.all_fns:
        for el in f.calls():
            n = callee_name(el.e)
            if n in SIGCALLS:
                ok = f.name in HANDLERS
                r.inst((f.name, el.n), {"fn": f.name, "site": el.where(), "call": n}, nontrivial=False)
                if not ok:
                    r.bad("K2:%s:calls:%s" % (f.name, n), el.where(), f.name, "%s is called outside the save/restore functions: the saved disposition no longer describes what must be restored" % n)
    return r


def rule_saverestore(P):
    r = Rule("C07-saverestore", "K8/K11", "install saves into the slot of the same signal; restore loads from it, nulls it, frees once", floor=4)
    # installers: sigaction with a non-NULL oldact
    for f in P.all_fns:
        for el in f.calls("sigaction"):
            a = el.e[2]
            act, old = strip(a[1]), strip(a[2])
            act_null = is_e(act, "int") and act[1] == 0
            old_null = is_e(old, "int") and old[1] == 0
            if not old_null:
                ix = slot_of(old)
                same = ix is not None and eq(ix, a[0])
                # slot allocated before: a store into the same slot from mm_malloc dominates
                allocs = [s for s, lhs, op, rhs in f.stores() if slot_of(lhs) is not None and eq(slot_of(lhs), a[0]) and any(is_e(q, "call") and callee_name(q) in ("event_mm_malloc_", "event_mm_calloc_") for q in walk(rhs))]
                alloc_ok = any(f.pos_dominates(s.pos(), el.pos()) for s in allocs)
                # failure edge: freed and nulled before return
                frees = [c for c in f.calls("event_mm_free_") if slot_of(c.e[2][0]) is not None]
                nulls = [s for s, lhs, op, rhs in f.stores() if slot_of(lhs) is not None and is_e(strip(rhs), "int") and strip(rhs)[1] == 0]
                fail_ok = bool(frees) and bool(nulls)
                # every return -1 reachable after the allocation must pass a free+null
                leak = None
                for s in allocs:
                    w = f.exit_reachable_avoiding(s.pos(), lambda x: x in frees, exit_pred=lambda ret: is_e(strip(ret.e[1]), "int") and strip(ret.e[1])[1] == -1 if len(ret.e) > 1 and ret.e[1] else False)
                    # the allocation-failed edge itself returns -1 without a slot to free: allow returns dominated by a NULL test of the slot
                    if w is not None and w is not True:
                        gs = [negate_truth(c, t) for c, t, _ in f.guards_at(w.bid)]
                        if not any(slot_of(c) is not None and not t for c, t in gs) and not any(is_e(strip(c), "bin") and strip(c)[1] == "==" and slot_of(strip(c)[2]) is not None and t for c, t in gs):
                            leak = w
                r.inst(("install", f.name, el.n), {"fn": f.name, "site": el.where(), "oldact": show(old), "same_signal_slot": same, "allocated_before": alloc_ok, "released_on_failure": fail_ok and leak is None})
                if not same:
                    r.bad("K8:%s:old-disposition-saved-elsewhere" % f.name, el.where(), f.name, "sigaction(%s, ...) saves the previous disposition into %s, not into the slot of that signal" % (show(a[0]), show(old)))
                if not alloc_ok:
                    r.bad("K11:%s:slot-not-allocated" % f.name, el.where(), f.name, "the save slot is not allocated on every path before sigaction writes through it")
                if not fail_ok or leak is not None:
                    r.bad("K11:%s:slot-leak-on-failure" % f.name, el.where(), f.name, "a failure exit after the allocation neither frees nor clears the save slot (a later restore would install garbage)")
            if not act_null and old_null:
                # restorer: act must be the value loaded from the slot of the same signal
                src = None
                if is_e(act, "var"):
                    defs = [rhs for d, rhs in f.var_stores(act[1])]
                    src = [slot_of(x) for x in defs if slot_of(x) is not None]
                    same = bool(src) and all(eq(s, a[0]) for s in src) and len(src) == len(defs)
                else:
                    same = slot_of(act) is not None and eq(slot_of(act), a[0])
                nulls = [s for s, lhs, op, rhs in f.stores() if slot_of(lhs) is not None and eq(slot_of(lhs), a[0]) and is_e(strip(rhs), "int") and strip(rhs)[1] == 0]
                frees = [c for c in f.calls("event_mm_free_") if eq(strip(c.e[2][0]), act)]
                once = len(frees) == 1
                r.inst(("restore", f.name, el.n), {"fn": f.name, "site": el.where(), "act": show(act), "from_same_signal_slot": same, "slot_cleared": bool(nulls), "freed_once": once})
                if not same:
                    r.bad("K8:%s:restores-other-disposition" % f.name, el.where(), f.name, "sigaction(%s, %s, NULL) does not restore the disposition saved for that signal" % (show(a[0]), show(act)))
                if not nulls or not once:
                    r.bad("K11:%s:slot-not-released" % f.name, el.where(), f.name, "after restoring, the save slot is not cleared / the saved record is not freed exactly once")
    return r


def rule_del(P):
    r = Rule("C07-del", "K3", "signal eventop `del` slots reach the restore on every success path; dealloc restores every saved slot", floor=3)
    sigops = []
    for gname, gl in P.globals.items():
        g = gl[0]
        if "init" in g and g.get("type", "").replace("const ", "").strip().startswith("struct eventop") and g.get("file") in ("signal.c", "signalfd.c"):
            sigops.append(g)
    dels = set()
    for g in sigops:
        for s in walk(g["init"]):
            if is_e(s, "sinit"):
                for fname, v in s[2]:
                    v = strip(v)
                    if fname == "eventop.del" and is_e(v, "fn"):
                        dels.add(v[1])
    if len(dels) < 2:
        r.brk("signal eventops' del slots not found (%s)" % sorted(dels))
        return r
    def restores(el):
        if el.e[0] != "call":
            return False
        if callee_name(el.e) == "evsig_restore_handler_":
            return True
        if callee_name(el.e) == "sigaction":
            old = strip(el.e[2][2])
            return is_e(old, "int") and old[1] == 0
        return False
    for n in sorted(dels):
        f = P.fn(n)
        sites = [el for el in f.elems() if restores(el)]
        # a success return (value 0 or the restore's own result) must not be reachable without a restore, except on the edge where the slot is empty
        bad = None
        for ret in f.returns():
            v = strip(ret.e[1]) if len(ret.e) > 1 and ret.e[1] else None
            if v is not None and is_e(v, "int") and v[1] == -1:
                continue
            if any(restores_in(v, q) for q in [1]) if False else False:
                pass
            if v is not None and is_e(v, "call") and callee_name(v) == "evsig_restore_handler_":
                continue
            w = f.path_avoiding((f.entry, -1), lambda x: x is ret, lambda x: x in sites)
            if w is not None:
                # allowed only if every such path passes the "slot empty / index beyond table" edge
                empt = [b for b in f.branch_blocks() if any(slot_of(q) is not None for q in walk(b.term["cond"])) or any(is_e(q, "fld") and q[2] == "evsig_info.sh_old_max" for q in walk(b.term["cond"])) or
                        (is_e(strip(b.term["cond"]), "var") and any(slot_of(rhs) is not None for d, rhs in f.var_stores(strip(b.term["cond"])[1])))]
                cut = set()
                for b in empt:
                    for s, l in b.succ:
                        if not any(x.bid in f.reach_blocks(s) for x in sites):
                            cut.add((b.id, s))
                reach = f.reach_blocks(f.entry, avoid_blocks=set(x.bid for x in sites), avoid_edges=cut)
                if ret.bid in reach:
                    bad = ret
        r.inst(("del", n), {"fn": n, "restore_sites": [x.where() for x in sites], "success_without_restore": bad.where() if bad else None})
        if not sites or bad is not None:
            r.bad("K3:%s:success-without-restore" % n, bad.where() if bad else "%s:%d" % (f.file, f.line), n,
                  "deleting the last event for a signal can succeed without restoring the disposition that was saved when the first was added")
    f = P.fn("evsig_dealloc_")
    calls = list(f.calls("evsig_restore_handler_"))
    ok = False
    if calls:
        c = calls[0]
        hd = f.loops_of(c.bid)
        if hd:
            h = min(hd, key=lambda x: len(f.natural_loop(x)))
            t = f.blocks[h].term
            nsig = t and any(is_e(q, "int") and q[1] >= 32 for q in walk(t.get("cond")))
            starts0 = any(op == "=" and is_e(strip(rhs), "int") and strip(rhs)[1] == 0 and eq(strip(lhs), strip(c.e[2][1])) for el, lhs, op, rhs in f.stores())
            gs = [negate_truth(cc, tt) for cc, tt, _ in f.guards_at(c.bid)]
            only_nonnull = all(not (slot_of(strip(cc)[2] if is_e(strip(cc), "bin") else cc) is not None and not tt) for cc, tt in gs)
            ok = bool(nsig) and starts0 and eq(strip(c.e[2][1]), strip(c.e[2][1]))
    r.inst("dealloc", {"fn": "evsig_dealloc_", "restores_in_loop_over_all_signals": ok})
    if not ok:
        r.bad("K3:evsig_dealloc_:not-all-restored", "%s:%d" % (f.file, f.line), f.name, "freeing the base does not restore every saved disposition (loop from 0 to NSIG over the slots)")
    return r


def restores_in(v, q):
    return False


def rule_map(P):
    r = Rule("C07-map", "K6/K4", "evmap_signal_add_/del_ call the backend exactly on the empty<->non-empty transition", floor=4)
    f = P.fn("evmap_signal_add_")
    ctx = ["var", "ctx", "local"]
    kfirst = nkey(["fld", ["fld", ctx, "evmap_signal.events", "->"], "event_dlist.lh_first", "."])
    sigp = f.params[1][0]
    for first in (0, 1):
        env = {sigp: 10, "ctx": 1, kfirst: first, nkey(["fld", ["var", "map", "local"], "event_signal_map.nentries", "->"]): 64}
        def hook(el, e_):
            if callee_slot(el.e) == "eventop.add":
                a = el.e[2]
                try:
                    e_["#args"] = (evalx(normx(a[2]), e_, P), evalx(normx(a[3]), e_, P))
                except EvalError:
                    e_["#args"] = None
                return [(0, {"#be": 0}), (-1, {"#be": -1})]
            return None
        def notable(el):
            if el.mac and el.mac[-1] == "LIST_INSERT_HEAD":
                return "TAILQ_LIST_INSERT_HEAD"
            return None
        for o in run_all(f, (f.entry, 0), env, lambda el: False, P, hook, max_steps=900, notable=notable):
            if o.kind == "exit" and o.why == "noreturn":
                continue
            if o.kind != "ret":
                r.brk("evmap_signal_add_: %s %s" % (o.kind, o.why))
                return r
            try:
                ret = evalx(normx(o.at.e[1]), o.env, P)
            except EvalError:
                ret = None
            be = o.env.get("#be")
            ins = "TAILQ_LIST_INSERT_HEAD" in o.env.get("#trace", ())
            if ret == -1 and be is None:
                continue   # slot allocation failure
            r.inst(("add", first, be), {"list_nonempty": bool(first), "backend": be, "args": o.env.get("#args"), "inserted": ins, "ret": ret})
            if first and be is not None:
                r.bad("K6:evmap_signal_add_:backend-called-again", "%s:%d" % (f.file, f.line), f.name, "the backend add (handler installation) runs although the signal already has events: the saved disposition is overwritten by libevent's own handler")
            if not first and be is None:
                r.bad("K6:evmap_signal_add_:backend-not-called", "%s:%d" % (f.file, f.line), f.name, "first event for a signal does not install the handler")
            if be == -1 and (ins or ret != -1):
                r.bad("K5:evmap_signal_add_:commit-after-failure", "%s:%d" % (f.file, f.line), f.name, "the event is linked / success is returned although the backend add failed")
            if be in (0, None) and ret is not None and (not ins or ret != 1) and ret != -1:
                r.bad("K6:evmap_signal_add_:not-linked", "%s:%d" % (f.file, f.line), f.name, "success path does not link the event and return 1")
            if be is not None and o.env.get("#args") != (0, EV["SIGNAL"]):
                r.bad("K6:evmap_signal_add_:backend-args", "%s:%d" % (f.file, f.line), f.name, "backend add is called with (old, events) = %s, expected (0, EV_SIGNAL)" % (o.env.get("#args"),))
    g = P.fn("evmap_signal_del_")
    dels = [el for el in g.calls(slot="eventop.del")]
    rem = [el for el in g.elems() if el.mac and el.mac[-1] == "LIST_REMOVE" and el.e[0] == "asg"]
    ok = False
    if len(dels) == 1 and rem:
        d = dels[0]
        gs = [negate_truth(c, t) for c, t, _ in g.guards_at(d.bid)]
        empty = any((t and is_e(strip(c), "bin") and strip(c)[1] == "==" and any(is_e(q, "fld") and q[2].endswith(".lh_first") for q in walk(c))) or
                    ((not t) and any(is_e(q, "fld") and q[2].endswith(".lh_first") for q in walk(c)) and not is_e(strip(c), "bin")) for c, t in gs)
        after = all(g.path_avoiding((g.entry, -1), lambda x: x is d, lambda x: x in rem) is None for _ in [0])
        ok = empty and after
    r.inst("del", {"backend_del_when_list_empty_after_unlink": ok})
    if not ok:
        r.bad("K4:evmap_signal_del_:backend-del-condition", "%s:%d" % (g.file, g.line), g.name, "the backend del (handler restore) is not called exactly when the list is empty after unlinking the event")
    return r


def rule_counts(P):
    r = Rule("C07-counts", "K8/K6", "delivery counting: per-signal slot, forwarded count, closure bounded by ncalls, del/re-add zero the running count", floor=8)
    f = P.fn("evsig_cb")
    incs = [el for el, lhs, op, rhs in f.stores() if op == "++" and is_e(strip(lhs), "idx") and is_e(strip(strip(lhs)[1]), "var") and strip(strip(lhs)[1])[1] == "ncaught"]
    acts = list(f.calls("evmap_signal_active_"))
    ok1 = False
    if len(incs) == 1:
        ix = strip(strip(incs[0].e[3])[2])
        # index = the byte read: a local initialised from signals[i]
        if is_e(ix, "var"):
            defs = [rhs for d, rhs in f.var_stores(ix[1])]
            ok1 = bool(defs) and all(is_e(strip(x), "idx") and is_e(strip(strip(x)[1]), "var") and strip(strip(x)[1])[1] == "signals" for x in defs)
            gs = [negate_truth(c, t) for c, t, _ in f.guards_at(incs[0].bid)]
            ok1 = ok1 and any(t and is_e(strip(c), "bin") and strip(c)[1] == "<" and eq(strip(c)[2], ix) for c, t in gs)
    r.inst("count", {"one_increment_per_byte_in_its_signal_slot_bounds_checked": ok1})
    if not ok1:
        r.bad("K8:evsig_cb:count-slot", incs[0].where() if incs else "%s:%d" % (f.file, f.line), f.name, "a byte read from the self-pipe is not counted exactly once in the slot of the signal number it carries (with the NSIG bound)")
    ok2 = False
    if len(acts) == 1:
        a = acts[0].e[2]
        ok2 = is_e(strip(a[2]), "idx") and eq(strip(a[2])[2], a[1]) and is_e(strip(strip(a[2])[1]), "var") and strip(strip(a[2])[1])[1] == "ncaught"
        gs = [negate_truth(c, t) for c, t, _ in f.guards_at(acts[0].bid)]
        ok2 = ok2 and any(t and eq(c, a[2]) for c, t in gs)
    r.inst("report", {"reports_each_nonzero_count_with_its_own_signal": ok2})
    if not ok2:
        r.bad("K8:evsig_cb:report-args", acts[0].where() if acts else "%s:%d" % (f.file, f.line), f.name, "the signal number and the count handed to evmap_signal_active_ do not belong together, or zero counts are reported")
    g = P.fn("evmap_signal_active_")
    a = list(g.calls("event_active_nolock_"))
    ok3 = len(a) == 1 and is_e(strip(a[0].e[2][1]), "int") and strip(a[0].e[2][1])[1] == EV["SIGNAL"] and eq(strip(a[0].e[2][2]), ["var", g.params[2][0], "param"])
    r.inst("forward", {"EV_SIGNAL_and_count_forwarded": ok3})
    if not ok3:
        r.bad("K8:evmap_signal_active_:forward", "%s:%d" % (g.file, g.line), g.name, "signal events are not activated with EV_SIGNAL and the delivery count")
    # closure: evaluated — callback invocations == min(ncalls, until zeroed)
    h = P.fn("event_signal_closure")
    ev = ["var", h.params[1][0], "param"]
    base = ["var", h.params[0][0], "param"]
    knc = nkey(["fld", ["fld", ["fld", ev, "event.ev_", "->"], "event::ev_.ev_signal", "."], "event::ev_::ev_signal.ev_ncalls", "."])
    for n in (0, 1, 3):
        for zero_after in (None, 1):
            for brk in (0, 1):
                env = {ev[1]: 1, base[1]: 1, knc: n, nkey(["fld", base, "event_base.th_base_lock", "->"]): 0, nkey(["fld", base, "event_base.event_break", "->"]): brk}
                def hook(el, e_):
                    if el.e[1][0] == "ptr" or callee_slot(el.e) == "event.ev_callback" or (el.e[1][0] not in ("fn",)):
                        k_ = e_.get("#cb", 0) + 1
                        e_["#cb"] = k_
                        if zero_after is not None and k_ == zero_after:
                            e_["ncalls"] = 0      # what event_del does through ev_pncalls
                        return 0
                    return None
                for o in run_all(h, (h.entry, 0), env, lambda el: False, P, hook, max_steps=600):
                    if o.kind == "unknown":
                        r.brk("event_signal_closure: %s" % o.why)
                        return r
                    got = o.env.get("#cb", 0)
                    want = 0 if n == 0 else (1 if (zero_after == 1 or brk) else n)
                    r.inst(("closure", n, zero_after, brk), {"ncalls": n, "deleted_in_first_callback": bool(zero_after), "loopbreak": brk, "callback_runs": got})
                    if got != want:
                        r.bad("K6:event_signal_closure:runs", "%s:%d" % (h.file, h.line), h.name, "ncalls=%d, deleted in first callback=%s, break=%d: callback runs %d times, documented %d" % (n, bool(zero_after), brk, got, want))
    # del / re-add zero the running count
    M = Machine(P)
    for fname, args in (("event_del_nolock_", {"blocking": 1}), ("event_add_nolock_", {"tv": 1, "tv_is_absolute": 0})):
        fn = P.fn(fname)
        evv = ["var", fn.params[0][0], "param"]
        knc2 = nkey(["fld", ["fld", ["fld", evv, "event.ev_", "->"], "event::ev_.ev_signal", "."], "event::ev_::ev_signal.ev_ncalls", "."])
        kpn = nkey(["fld", ["fld", ["fld", evv, "event.ev_", "->"], "event::ev_.ev_signal", "."], "event::ev_::ev_signal.ev_pncalls", "."])
        kder = nkey(["deref", ["fld", ["fld", ["fld", evv, "event.ev_", "->"], "event::ev_.ev_signal", "."], "event::ev_::ev_signal.ev_pncalls", "."]])
        nb = 0
        for fl in (L["INIT"] | L["INSERTED"], L["INIT"] | L["INSERTED"] | L["ACTIVE"], L["INIT"] | L["ACTIVE"], L["INIT"] | L["INSERTED"] | L["ACTIVE"] | L["TIMEOUT"]):
            for events in (EV["SIGNAL"] | EV["PERSIST"], EV["READ"] | EV["PERSIST"]):
                st = {"flags": fl, "res": EV["TIMEOUT"] | (EV["SIGNAL"] if events & EV["SIGNAL"] else EV["READ"]), "events": events, "count": 10, "active": 5}
                for o in M.evaluate(fname, st, args, extra={knc2: 2, kpn: 1, kder: 2}):
                    if o["unknown"]:
                        r.brk(o["unknown"])
                        return r
                    after = o["env"].get(kder)
                    sig = bool(events & EV["SIGNAL"])
                    must_zero = sig if fname == "event_del_nolock_" else (sig and bool(fl & L["ACTIVE"]) and o["ret"] != -1)
                    r.inst((fname, fl, events, o["choices"]), {"fn": fname, "flags": hex(fl), "signal_event": sig, "running_count_after": after})
                    if must_zero and after != 0 and nb < 2:
                        nb += 1
                        r.bad("K6:%s:running-count-not-zeroed" % fname, "%s:%d" % (fn.file, fn.line), fname,
                              "a signal event (flags %#x) whose callback loop is running keeps *ev_pncalls=%s: the callback runs again after the event was deleted/re-armed" % (fl, after))
                    if not sig and after != 2 and nb < 2:
                        nb += 1
                        r.bad("K6:%s:count-zeroed-for-io" % fname, "%s:%d" % (fn.file, fn.line), fname, "the signal-count word is written for a non-signal event (it aliases the I/O timeout)")
    return r


def rule_target(P):
    r = Rule("C07-target", "K5", "the process-wide handler target (evsig_base, evsig_base_fd) is written together; resets only under base == evsig_base", floor=3)
    for f in P.fns_in("signal.c"):
        sb = [el for el, lhs, op, rhs in f.stores() if is_e(strip(lhs), "var") and strip(lhs)[1] == "evsig_base" and el.e[0] != "decl"]
        sf = [el for el, lhs, op, rhs in f.stores() if is_e(strip(lhs), "var") and strip(lhs)[1] == "evsig_base_fd" and el.e[0] != "decl"]
        for el in sf + sb:
            others = sb if el in sf else sf
            tied = any(f.tied(el, o) for o in others)
            r.inst((f.name, el.n), {"fn": f.name, "site": el.where(), "store": show(el.e), "written_with_its_partner": tied})
            if not tied:
                r.bad("K5:%s:handler-target-split" % f.name, el.where(), f.name,
                      "%s is written without its partner (%s) under the same condition: the signal handler would write to a descriptor that does not belong to the base it reports to "
                      "(e.g. freeing an unrelated base silences another base's signals)" % (show(el.e), "evsig_base" if el in sf else "evsig_base_fd"))
        for el in sf + sb:
            rhs = strip(el.e[3])
            reset = (is_e(rhs, "int") and rhs[1] in (0, -1))
            if reset:
                gs = [negate_truth(c, t) for c, t, _ in f.guards_at(el.bid)]
                ok = any(t and is_e(strip(c), "bin") and strip(c)[1] == "==" and any(is_e(q, "var") and q[1] == "evsig_base" for q in walk(c)) for c, t in gs)
                r.inst((f.name, el.n, "reset"), {"fn": f.name, "site": el.where(), "reset_under_owner_test": ok})
                if not ok:
                    r.bad("K4:%s:handler-target-reset-unguarded" % f.name, el.where(), f.name, "%s resets the handler target although this base may not own it" % show(el.e))
    # state that the signal handler itself keeps between deliveries (file-scope variables it writes, other than the target pair): it describes the signalling socket, and has to start
    # afresh whenever that socket does - in evsig_init_ (every new socket pair: new base, event_reinit in a forked child), or in every function that closes the pair
    h = P.fns.get("evsig_handler")
    if h is not None:
        gw = set()
        for el, lhs, op, rhs in h.stores():
            rv = root_var(lhs)
            if rv is not None and rv[2] not in ("local", "param") and rv[1] not in ("evsig_base", "evsig_base_fd", "errno"):
                gw.add(rv[1])
        closers = [g for g in P.all_fns if any(callee_name(c.e) == "evutil_closesocket" and any(is_e(q, "fld") and q[2].endswith("ev_signal_pair") for q in walk(c.e)) for c in g.calls())]
        for name in sorted(gw):
            def writes(g):
                return any(root_var(lh) is not None and root_var(lh)[1] == name for e2, lh, o2, r2 in g.stores()) or \
                    any(callee_name(c.e) in ("memset", "__builtin_memset", "__builtin___memset_chk") and any(is_e(q, "var") and q[1] == name for q in walk(c.e[2][0])) for c in g.calls())
            init = P.fns.get("evsig_init_")
            ok = (init is not None and writes(init)) or (closers and all(writes(g) for g in closers))
            r.inst(("handler-state", name), {"variable": name, "written_by": "evsig_handler", "reset_with_the_socket": bool(ok), "socket_closers": [g.name for g in closers]})
            if not ok:
                r.bad("K5:evsig_handler:state-outlives-socket:%s" % name, "%s:%d" % (h.file, h.line), h.name,
                      "the handler keeps state in %s between deliveries, but neither evsig_init_ nor every function that closes the signalling socket resets it: after the base is freed or "
                      "re-initialised in a forked child the stale value decides what the handler does for a new socket" % name)
    return r


def rule_table(P):
    r = Rule("C07-table", "K8/K4", "the saved-disposition table is only grown in place (realloc of itself) or copied with a length scaled by the element size", floor=2)
    SIZEWORDS = ("sizeof",)
    def scaled(e):
        return any(is_e(q, "int") and len(q) > 2 and q[2] and "sizeof" in q[2] for q in walk(e)) or any(is_e(q, "sizeof") for q in walk(e))
    for f in P.fns_in("signal.c", "signalfd.c"):
        for el, lhs, op, rhs in f.stores():
            if fields_of(lhs)[-1:] != ["evsig_info.sh_old"] or is_e(strip(lhs), "idx"):
                continue
            rv = strip(rhs)
            if is_e(rv, "int") and rv[1] == 0:
                r.inst((f.name, el.n), {"fn": f.name, "site": el.where(), "store": "NULL"}, nontrivial=False)
                continue
            srcs = [rv]
            if is_e(rv, "var"):
                srcs = [strip(x) for d, x in f.reaching_defs(rv[1], el)]
            ok = True
            why = []
            for s_ in srcs:
                c = s_
                if is_e(c, "call") and callee_name(c) == "event_mm_realloc_" and fields_of(c[2][0])[-1:] == ["evsig_info.sh_old"]:
                    why.append("realloc of the table itself")
                    if not scaled(c[2][1]):
                        ok = False
                        why.append("new size not scaled by the element size")
                    continue
                if is_e(c, "call") and callee_name(c) in ("event_mm_calloc_", "event_mm_malloc_"):
                    cps = [x for x in f.calls() if callee_name(x.e) in ("memcpy", "memmove", "__builtin_memcpy", "__builtin___memcpy_chk") and fields_of(x.e[2][1])[-1:] == ["evsig_info.sh_old"]]
                    good = [x for x in cps if scaled(x.e[2][2]) and any(is_e(q, "fld") and q[2] == "evsig_info.sh_old_max" for q in walk(x.e[2][2]))]
                    if not good:
                        ok = False
                        why.append("fresh allocation without a copy of sh_old_max * sizeof(entry) bytes from the old table")
                    else:
                        why.append("fresh allocation + scaled copy")
                    continue
                ok = False
                why.append("unrecognised source %s" % show(c)[:40])
            r.inst((f.name, el.n), {"fn": f.name, "site": el.where(), "sources": why})
            if not ok:
                r.bad("K8:%s:saved-table-not-preserved" % f.name, el.where(), f.name,
                      "the table of saved dispositions is replaced by memory that does not carry over all earlier entries (%s): growing it for a higher signal number forgets the "
                      "handlers saved for lower ones, which are then never restored" % "; ".join(why))
        # memset / memcpy over the table: lengths scaled
        for x in f.calls():
            n = callee_name(x.e)
            if n in ("memset", "memcpy", "memmove", "__builtin_memcpy", "__builtin___memcpy_chk", "__builtin___memset_chk") and any(is_e(q, "fld") and q[2] in ("evsig_info.sh_old", "evsig_info.sh_old_max") for a in x.e[2] for q in walk(a)):
                ok = scaled(x.e[2][2])
                r.inst((f.name, x.n, n), {"fn": f.name, "site": x.where(), "call": n, "length": show(x.e[2][2])[:60], "scaled_by_element_size": ok})
                if not ok:
                    r.bad("K4:%s:unscaled-table-length" % f.name, x.where(), f.name, "%s over the saved-disposition table uses the length `%s`, a slot count rather than a byte count" % (n, show(x.e[2][2])[:50]))
    return r


def rule_abort_batch(P):
    """deleting a signal event from inside its callback stops the remaining invocations of the batch: event_del_nolock_ evaluated for a signal event in every
    combination of list flags must zero the batch counter the running closure reads (*ev->ev_pncalls)"""
    from ..prog import PRef
    r = Rule("C07-abort-batch", "K6", "event_del on a signal event whose callback batch is running zeroes *ev_pncalls, whatever queues the event is in", floor=8)
    f = P.fn("event_del_nolock_")
    ev = ["var", f.params[0][0], "param"]
    E = {}
    for g in P.fns_in("event.c"):
        for x in [el.e for el in g.elems()] + [b.term["cond"] for b in g.branch_blocks()]:
            for q in walk(x):
                if is_e(q, "int") and len(q) > 2 and isinstance(q[2], str) and (q[2].startswith("EVLIST_") or q[2].startswith("EV_")):
                    E.setdefault(q[2], q[1])
    need = ("EVLIST_INIT", "EVLIST_INSERTED", "EVLIST_ACTIVE", "EVLIST_TIMEOUT", "EVLIST_ACTIVE_LATER", "EV_SIGNAL", "EV_PERSIST")
    if any(n not in E for n in need):
        r.brk("flag constants not found: %s" % [n for n in need if n not in E])
        return r
    kflags = None
    kevents = nkey(["fld", ev, "event.ev_events", "->"])
    # spelling of ev_flags / ev_ncalls / ev_pncalls as the function reads them
    keys = {}
    for x in [el.e for el in f.elems()] + [b.term["cond"] for b in f.branch_blocks()]:
        for q in walk(x):
            if is_e(q, "fld"):
                for nm in ("evcb_flags", "ev_ncalls", "ev_pncalls", "ev_base"):
                    if q[2].endswith(nm) and root_var(q) is not None and root_var(q)[1] == ev[1]:
                        keys[nm] = nkey(q)
    if any(n not in keys for n in ("evcb_flags", "ev_ncalls", "ev_pncalls", "ev_base")):
        r.brk("event_del_nolock_ does not read %s" % [n for n in ("evcb_flags", "ev_ncalls", "ev_pncalls", "ev_base") if n not in keys])
        return r
    INIT = E["EVLIST_INIT"]
    for extra in (0, E["EVLIST_INSERTED"], E["EVLIST_ACTIVE"], E["EVLIST_INSERTED"] | E["EVLIST_ACTIVE"], E["EVLIST_TIMEOUT"], E["EVLIST_ACTIVE_LATER"], E["EVLIST_INSERTED"] | E["EVLIST_TIMEOUT"]):
        for persist in (0, E["EV_PERSIST"]):
            for blocking in (0, 1, 2):
                env = {"#typed": 1, ev[1]: 1, f.params[1][0]: blocking, keys["evcb_flags"]: INIT | extra, kevents: E["EV_SIGNAL"] | persist, keys["ev_ncalls"]: 3,
                       keys["ev_pncalls"]: PRef(None, "#batch"), "#batch": 2, keys["ev_base"]: 9, "base": 9, "event_debug_logging_mask_": 0, "event_debug_mode_on_": 0}
                def hook(el, e_):
                    n = callee_name(el.e)
                    if n in ("event_queue_remove_timeout", "event_queue_remove_active", "event_queue_remove_active_later", "event_queue_remove_inserted", "evthread_notify_base",
                             "event_debug_note_del_", "evthread_is_debug_lock_held_"):
                        return 0
                    if n in ("evmap_io_del_", "evmap_signal_del_"):
                        return 0
                    if n in ("min_heap_top_", "event_haveevents"):
                        return 1
                    return None
                outs = [o for o in run_all(f, (f.entry, 0), env, lambda el: False, P, hook, max_steps=500) if not (o.kind == "exit" and o.why == "noreturn")]
                for o in outs:
                    if o.kind == "unknown":
                        r.brk("event_del_nolock_: %s" % o.why)
                        return r
                    left = o.env.get("#batch")
                    r.inst((extra, persist, blocking, left), {"list_flags": hex(INIT | extra), "persist": bool(persist), "blocking": blocking, "batch_counter_after": left})
                    ptr_after = o.env.get(keys["ev_pncalls"])
                    if left == 0 and ptr_after not in (0,):
                        r.bad("K6:event_del_nolock_:batch-pointer-left-dangling", "%s:%d" % (f.file, f.line), f.name,
                              "after aborting the running batch ev->ev_pncalls still holds the address of the closure's local counter (%r): the closure returns without clearing it, and the next "
                              "event_del()/event_free() of this event writes through the dangling pointer into an unrelated stack frame" % (ptr_after,))
                    if left != 0:
                        r.bad("K6:event_del_nolock_:signal-batch-not-aborted", "%s:%d" % (f.file, f.line), f.name,
                              "signal event with list flags %#x%s deleted while its callback batch runs (ncalls 3, 2 invocations left): *ev_pncalls stays %s — the callback runs again after event_del/event_free" % (
                                  INIT | extra, " (one-shot: it is in no queue during its callback)" if not persist and not extra else "", left))
    seen, uniq = set(), []
    for f_ in r.findings:
        if f_.key not in seen:
            seen.add(f_.key)
            uniq.append(f_)
    r.findings = uniq
    return r


def run(ctx, config):
    P = ctx.prog(UNITS, config)
    Pall = ctx.prog(None, config)
    return [rule_who(Pall), rule_saverestore(P), rule_del(P), rule_map(P), rule_counts(P), rule_target(P), rule_table(P), rule_abort_batch(P)]
