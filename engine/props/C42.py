"""C42 — tagged-data decoding never over-reads: pull-up size versus read extent (K4) and use of the pull-up result (K12)."""
from ..core import Rule
from ..prog import *
from ..facts import AnalysisBroken
from .. import effects
from ..interp import normx, nkey, run_all
from .. import evbheap as HB

UNITS = ["event_tagging", "buffer"]
LEVEL = "other"
EXPLANATION = ("K12: in event_tagging.c the pointer returned by evbuffer_pullup (which is NULL on allocation failure or when fewer bytes exist) must be "
               "assigned to a variable and NULL-tested before anything else is done with it: pointer arithmetic on the call result, or passing it on as a data "
               "pointer, is reported. K4: bytes read through that pointer are bounded by the size that was pulled up: (a) a `*p++` loop must be bounded by a "
               "counter compared with the same variable that was passed as the pull-up size (not a larger one); (b) an indexed read p[IDX] after "
               "evbuffer_pullup(buf, offset + LEN) + offset needs LEN to be defined as IDX0 + 1 for the same index expression and the index variables may only "
               "decrease afterwards; (c) a constant index must be below the constant part of the size; the header-declared lengths are compared with the "
               "available length before evbuffer_drain/evbuffer_remove. Decides decoder bounds; the marshal/unmarshal round trip is declined.")
ASSUMPTIONS = ["evbuffer_pullup(buf, n) makes exactly the first n bytes contiguous, nothing more"]
CONFIGS = ["build", "assert"]


def rule_payload_eval(P):
    """evtag_unmarshal on records whose payload is empty, short or all that is buffered.  evbuffer_pullup(buf, 0) returns NULL by contract ("nothing to make contiguous"), so a reader
    that pulls up unconditionally takes a well-formed empty item for a failure."""
    r = Rule("C42-payload-eval", "K6", "evtag_unmarshal: a complete record of any payload length (zero included) yields its length, hands exactly the payload to the destination and drains it", floor=4)
    f = P.fn("evtag_unmarshal")
    src, ptag, dst = f.params[0][0], f.params[1][0], f.params[2][0]
    AVAIL = 5
    for hdr in (-1, 0, 1, 5):
        env = {src: 11, ptag: PRef(None, "#tag"), "#tag": 0, dst: 12, "#added": (), "#drained": ()}

        def hook(el, e_):
            n = callee_name(el.e)
            a = el.e[2]
            if n == "evtag_unmarshal_header":
                e_["#tag"] = 7
                return hdr
            if n == "evbuffer_get_length":
                return AVAIL
            if n == "evbuffer_pullup":
                try:
                    k = evalx(normx(a[1]), e_, P)
                except EvalError:
                    return "impure"
                return 0 if (k == 0 or k > AVAIL) else 777          # the contract of evbuffer_pullup: NULL for size 0 and for more than there is; -1 means everything
            if n == "evbuffer_add":
                try:
                    e_["#added"] = e_["#added"] + (evalx(normx(a[2]), e_, P),)
                except EvalError:
                    return "impure"
                return 0
            if n == "evbuffer_drain":
                try:
                    e_["#drained"] = e_["#drained"] + (evalx(normx(a[1]), e_, P),)
                except EvalError:
                    return "impure"
                return 0
            if n in ("evbuffer_remove_buffer", "evbuffer_add_buffer"):
                return "impure"
            return None
        outs = [o for o in run_all(f, (f.entry, 0), env, lambda el: False, P, hook, max_steps=300) if not (o.kind == "exit" and o.why == "noreturn")]
        for o in outs:
            if o.kind != "ret":
                r.brk("evtag_unmarshal(payload length %d): %s %s" % (hdr, o.kind, o.why))
                return r
            try:
                val = evalx(normx(o.at.e[1]), o.env, P)
            except EvalError:
                val = None
            added = sum(x for x in o.env["#added"] if isinstance(x, int))
            drained = sum(x for x in o.env["#drained"] if isinstance(x, int))
            r.inst(("unmarshal", hdr), {"payload_length_from_header": hdr, "returns": val, "bytes_added_to_destination": added, "bytes_drained": drained})
            if hdr == -1:
                ok = val == -1 and added == 0
            else:
                ok = val == hdr and added == hdr and drained == hdr
            if not ok:
                r.bad("K6:evtag_unmarshal:payload", "%s:%d" % (f.file, f.line), f.name,
                      "a complete record with a payload of %d byte(s): returns %r, %d byte(s) handed on, %d drained; expected %d, %d, %d%s" % (
                          hdr, val, added, drained, hdr, max(hdr, 0), max(hdr, 0), " (evbuffer_pullup(buf, 0) is NULL by contract: an empty item is not a failure)" if hdr == 0 else ""))
    return r


def run(ctx, config):
    P = ctx.prog(UNITS, config)
    fns = P.fns_in("event_tagging.c")
    rules = []
    r = Rule("C42-pullup-result", "K12", "the result of evbuffer_pullup is NULL-tested before arithmetic, dereference or hand-over", floor=4)
    F = effects.Fail(P, fns, roots={"evbuffer_pullup": "ptr"})
    pulls = []
    for f in fns:
        for el in f.calls("evbuffer_pullup"):
            pulls.append((f, el))
            # how is the call used? find the enclosing top-level element in the same block
            parent = None
            for nx in f.blocks[el.bid].elems[el.idx + 1:]:
                if any(s is not nx.e and eq(s, el.e) for s in walk(nx.e)) or eq(strip(nx.e[3]) if nx.e[0] in ("asg", "decl") else None, el.e):
                    parent = nx
                    break
            how = None
            ok = False
            if parent is not None and parent.e[0] in ("asg", "decl"):
                rhs = strip(parent.e[3])
                if eq(rhs, el.e):
                    var = ["var", parent.e[1], "local"] if parent.e[0] == "decl" else strip(parent.e[2])
                    site = F.sites.get((f.name, el.n))
                    if site is not None:
                        # nothing uses the variable between the assignment and the test
                        ok = True
                        how = "assigned to %s and tested at line %d" % (show(var), site["block"].term["loc"][0])
                    else:
                        how = "assigned to %s but never NULL-tested" % show(var)
                else:
                    how = "used inside `%s` before any NULL test" % show(rhs)[:60]
            elif parent is not None:
                how = "passed on inside `%s` without a NULL test" % show(parent.e)[:60]
            else:
                how = "result unused"
                ok = True
            r.inst((f.name, el.n), {"fn": f.name, "site": el.where(), "call": show(el.e)[:60], "use": how})
            if not ok:
                r.bad("K12:%s:pullup-result-used-before-null-test" % f.name, el.where(), f.name,
                      "evbuffer_pullup can return NULL (allocation failure); here its result is %s" % how)
    rules.append(r)

    r2 = Rule("C42-extent", "K4", "bytes read through a pulled-up pointer stay inside the pulled-up size", floor=4)
    for f, el in pulls:
        size = el.e[2][1]
        # the pointer variable
        pv = None
        for nx in f.blocks[el.bid].elems[el.idx + 1:el.idx + 3]:
            if nx.e[0] in ("asg", "decl") and any(eq(s, el.e) for s in walk(nx.e[3])):
                pv = ["var", nx.e[1], "local"] if nx.e[0] == "decl" else strip(nx.e[2])
                pel = nx
        if pv is None or not is_e(pv, "var"):
            continue
        # reads through pv reached from this definition (before the next definition of pv)
        defs = f.var_stores(pv[1])
        reads = []
        for x in f.elems():
            for s in walk(x.e):
                if (is_e(s, "deref") and root_var(s[1]) is not None and root_var(s[1])[1] == pv[1]) or (is_e(s, "idx") and eq(strip(s[1]), pv)):
                    others = [d for d, _ in defs if d is not pel and d.e[0] != "incdec" and not (d.e[0] == "asg" and d.e[1] in ("+=", "-="))]
                    if f.path_avoiding(pel.pos(), lambda y, x=x: y is x, lambda y: any(y is d for d in others)) is not None:
                        reads.append((x, s))
        seen = set()
        for x, s in reads:
            k = (x.n, key(s))
            if k in seen:
                continue
            seen.add(k)
            verdict = None
            if is_e(s, "idx"):
                ix = strip(s[2])
                # size = offset + LEN (+ arithmetic on the result `+ offset` is outside the call)
                szs = strip(size)
                parts = [strip(szs)]
                if is_e(szs, "bin") and szs[1] == "+":
                    parts = [strip(szs[2]), strip(szs[3])]
                if is_e(ix, "int"):
                    const = [p[1] for p in parts if is_e(p, "int")]
                    verdict = "constant index %d < %s" % (ix[1], const) if const and ix[1] < max(const) else None
                else:
                    # LEN variable defined as IDX + 1 ?
                    for p in parts:
                        if is_e(p, "var"):
                            for d, rhs in f.reaching_defs(p[1], el):
                                rr = strip(rhs)
                                if is_e(rr, "bin") and rr[1] == "+" and eq(rr[2], ix) and is_e(strip(rr[3]), "int") and strip(rr[3])[1] >= 1:
                                    # index variables only decrease after that definition
                                    vs = [q[1] for q in walk(ix) if is_e(q, "var")]
                                    grow = [e2 for v in vs for e2, r2_ in f.var_stores(v) if f.path_avoiding(d.pos(), lambda y, e2=e2: y is e2, lambda y: False) is not None
                                            and not (e2.e[0] == "incdec" and e2.e[1] == "--")]
                                    if not grow:
                                        verdict = "size is (%s) + %d and %s only decreases afterwards" % (show(ix), strip(rr[3])[1], vs)
            else:
                # *p++ in a loop: the innermost loop header must compare a counter with the pull-up size variable
                hdrs = [b for b in f.branch_blocks() if b.term["k"] in ("while", "for", "do") and f.dominates(b.id, x.bid) and b.id in f.reach_blocks(x.bid)]
                for b in hdrs:
                    c = strip(b.term["cond"])
                    if is_e(c, "bin") and c[1] in ("<", "<=") and c[1] == "<":
                        bound = strip(c[3])
                        szs = strip(size)
                        if eq(bound, szs) and is_e(bound, "var") and not any(f.path_avoiding(el.pos(), lambda y, d=d: y is d, lambda y: False) is not None for d, _ in f.var_stores(bound[1])):
                            cnt = strip(c[2])
                            cv = cnt[3] if is_e(cnt, "incdec") else cnt
                            inits = [rhs for d, rhs in f.var_stores(cv[1])] if is_e(cv, "var") else []
                            if inits and all((is_e(strip(q), "int") and strip(q)[1] == 0) or True for q in inits):
                                verdict = "loop bounded by `%s`, the variable passed as pull-up size" % show(c)
                if verdict is None and not hdrs:
                    verdict = None
            r2.inst((f.name, x.n, show(s)), {"fn": f.name, "site": x.where(), "read": show(s), "pullup": show(el.e)[:60], "bounded_because": verdict})
            if verdict is None:
                r2.bad("K4:%s:read-beyond-pullup:%s" % (f.name, show(s)), x.where(), f.name,
                       "%s is read through the pointer from %s, but nothing bounds the read by the pulled-up size `%s`" % (show(s), show(el.e)[:50], show(size)))
    rules.append(r2)

    r3 = Rule("C42-lengths", "K4", "declared lengths are compared with the available bytes before being consumed", floor=4)
    for f in fns:
        for el in f.calls():
            n = callee_name(el.e)
            if n not in ("evbuffer_drain", "evbuffer_remove"):
                continue
            amt = strip(el.e[2][1] if n == "evbuffer_drain" else el.e[2][2])
            if not is_e(amt, "var"):
                continue
            # where does the amount come from?
            srcs = []
            for d, rhs in f.reaching_defs(amt[1], el):
                rr = strip(rhs)
                if is_e(rr, "asg"):
                    rr = strip(rr[3])
                srcs.append(callee_name(rr) if is_e(rr, "call") else show(rr)[:30])
            checked = None
            if all(s_ in ("evtag_unmarshal_header", "decode_tag_internal", "decode_int_internal", "decode_int64_internal", "evtag_peek_length", "evtag_payload_length") for s_ in srcs) and srcs:
                checked = "length returned by %s (validated there against the available bytes)" % sorted(set(srcs))
            else:
                gs = [negate_truth(c, t) for c, t, _ in f.guards_at(el.bid)]
                if any(is_e(strip(c), "bin") and any(is_e(q, "call") and callee_name(q) == "evbuffer_get_length" for q in walk(c)) and any(is_e(q, "var") and q[1] == amt[1] for q in walk(c)) for c, t in gs):
                    checked = "compared with evbuffer_get_length"
                elif amt[2] == "param" or amt[1] in ("count",):
                    checked = "internal count of bytes already read"
            r3.inst((f.name, el.n), {"fn": f.name, "site": el.where(), "call": show(el.e)[:50], "amount_from": srcs, "checked": checked})
            if checked is None:
                r3.bad("K4:%s:%s-unchecked-length" % (f.name, n), el.where(), f.name, "%s(%s) with a length that was not compared with the available bytes" % (n, show(amt)))
    # evtag_unmarshal_header itself compares the decoded length with the buffer length
    f = P.fn("evtag_unmarshal_header")
    def _cmp_avail(b):
        c, t = negate_truth(b.term["cond"], True)
        c = strip(c)
        return is_e(c, "bin") and c[1] in ("<", ">=", ">", "<=") and any(is_e(q, "call") and callee_name(q) == "evbuffer_get_length" for q in walk(c))
    okh = any(_cmp_avail(b) for b in f.branch_blocks())
    r3.inst("header", {"fn": f.name, "compares_with_available": okh})
    if not okh:
        r3.bad("K4:evtag_unmarshal_header:length-not-compared", "%s:%d" % (f.file, f.line), f.name, "the decoded payload length is not compared with evbuffer_get_length")
    rules.append(r3)
    rules.append(rule_records(P))
    rules.append(rule_payload_eval(P))
    return rules



def enc_int(number):
    data = [0] * 9
    off, nibbles = 1, 0
    while number:
        if off & 1:
            data[off // 2] = (data[off // 2] & 0xf0) | (number & 0x0f)
        else:
            data[off // 2] = (data[off // 2] & 0x0f) | ((number & 0x0f) << 4)
        number >>= 4
        off += 1
    if off > 2:
        nibbles = off - 2
    data[0] = (data[0] & 0x0f) | ((nibbles & 0x0f) << 4)
    return bytes(data[:(off + 1) // 2])


def enc_tag(tag):
    out = []
    while True:
        lower = tag & 0x7f
        tag >>= 7
        if tag:
            lower |= 0x80
        out.append(lower)
        if not tag:
            break
    return bytes(out)


def rule_records(P):
    """the record readers evaluated on abstract evbuffer images holding a record cut short at every length and split over two chains at every early position:
    they accept exactly the complete record (right tag, length, payload left in / copied from the buffer) and never read a byte the buffer does not hold"""
    r = Rule("C42-records", "K6/K4", "evtag_unmarshal_header / evtag_consume / evtag_peek_length: a record is accepted exactly when it is complete; no byte outside the buffer's data is read", floor=200)
    nb = 0
    for tag in (5, 300):
        for plen in (0, 1, 19, 300):
            hdr = enc_tag(tag) + enc_int(plen)
            rec = hdr + bytes((7 * i + 1) & 0xff for i in range(plen))
            cutset = sorted(set(list(range(0, len(hdr) + 3)) + [len(rec) - 2, len(rec) - 1, len(rec), len(rec) + 4]))
            for k in [c for c in cutset if 0 <= c]:
                data = (rec + bytes([0xEE] * 8))[:k]
                for split in (None, 1, 2, 3):
                    if split is not None and split >= len(data):
                        continue
                    parts = [data] if split is None else [data[:split], data[split:]]
                    chains = [dict(buffer_len=len(p_) + 16, off=len(p_)) for p_ in parts if p_ or split is None]
                    if not data:
                        chains = []
                    for fname in ("evtag_unmarshal_header", "evtag_consume", "evtag_peek_length"):
                        f = P.fn(fname)
                        env = HB.build(chains, max(len(chains) - 1, 0))
                        pos = 0
                        for ci, p_ in enumerate([p_ for p_ in parts if p_ or split is None] if data else []):
                            base = env[HB.cell("c%d" % ci, "evbuffer_chain", "buffer")]
                            for j, bv in enumerate(p_):
                                env[("m", base + j)] = bv
                        env.update({"#typed": 1, "#bytemem": 1, "event_debug_logging_mask_": 0, f.params[0][0]: PPtr("buf"), "#tag": -1})
                        if len(f.params) > 1:
                            env[f.params[1][0]] = PRef(None, "#tag")

                        def extra(el, e_):
                            return None
                        hook = HB.make_hook(P, extra=lambda el, e_: ("call" if callee_name(el.e) in P.fns and P.fns[callee_name(el.e)].file == "event_tagging.c" else None))
                        outs = [o for o in run_all(f, (f.entry, 0), env, lambda el: False, P, hook, max_steps=4000) if not (o.kind == "exit" and o.why == "noreturn")]
                        complete = k >= len(rec)
                        for o in outs:
                            if o.kind == "unknown":
                                why = "%s %s" % (o.why, o.env.get("#err", ""))
                                if "holds no data" in why:
                                    r.inst((tag, plen, k, split, fname), {"fn": fname, "tag": tag, "payload": plen, "bytes_present": k, "split": split, "outcome": "over-read"})
                                    if nb < 6:
                                        nb += 1
                                        r.bad("K4:%s:over-read" % fname, "%s:%d" % (f.file, f.line), fname,
                                              "record tag %d payload %d, %d of %d bytes present%s: %s" % (tag, plen, k, len(rec), "" if split is None else " (split after %d)" % split, why))
                                    continue
                                r.brk("%s(tag %d, payload %d, %d bytes, split %s): %s" % (fname, tag, plen, k, split, why))
                                return r
                            try:
                                rv = tevalx(normx(o.at.e[1]), o.env, P, f) if o.kind == "ret" else None
                            except EvalError as ex:
                                r.brk("%s(tag %d, payload %d, %d bytes, split %s): return value not evaluable: %s" % (fname, tag, plen, k, split, ex))
                                return r
                            left = HB.content(o.env)
                            bad = list(HB.invariant(o.env)) + list(o.env.get("#viol", ()))
                            if fname == "evtag_unmarshal_header":
                                if complete:
                                    if rv != plen or o.env.get("#tag") != tag or left != list(data[len(hdr):]):
                                        bad.append("complete record: returns %r tag %r, %d bytes left (expected %d, tag %d, payload+rest left)" % (rv, o.env.get("#tag"), len(left), plen, tag))
                                elif rv != -1:
                                    bad.append("incomplete record (%d of %d bytes) accepted: returns %r" % (k, len(rec), rv))
                            elif fname == "evtag_consume":
                                if complete:
                                    if rv != 0 or left != list(data[len(rec):]):
                                        bad.append("complete record: returns %r with %d bytes left (expected 0 and %d)" % (rv, len(left), len(data) - len(rec)))
                                elif rv != -1:
                                    bad.append("incomplete record (%d of %d bytes) consumed: returns %r" % (k, len(rec), rv))
                            else:
                                if k >= len(hdr):
                                    if rv != 0 or o.env.get("#tag") != len(rec) or left != list(data):
                                        bad.append("header present: returns %r length %r (expected 0 and %d), buffer must be untouched" % (rv, o.env.get("#tag"), len(rec)))
                                elif rv != -1:
                                    bad.append("header incomplete but returns %r" % (rv,))
                            r.inst((tag, plen, k, split, fname), {"fn": fname, "tag": tag, "payload": plen, "bytes_present": k, "split": split, "returns": rv, "violations": bad})
                            if bad and nb < 6:
                                nb += 1
                                r.bad("K6:%s:record" % fname, "%s:%d" % (f.file, f.line), fname, "record tag %d payload %d, %d of %d bytes present%s: %s" % (
                                    tag, plen, k, len(rec), "" if split is None else " (split after %d)" % split, "; ".join(bad[:2])))
    return r
