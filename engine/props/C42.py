"""C42 — tagged-data decoding never over-reads: pull-up size versus read extent (K4) and use of the pull-up result (K12)."""
from ..core import Rule
from ..prog import *
from ..facts import AnalysisBroken
from .. import effects

UNITS = ["event_tagging"]
LEVEL = "other"
EXPLANATION = ("K12: in event_tagging.c the pointer returned by evbuffer_pullup (which is NULL on allocation failure or when fewer bytes exist) must be "
               "assigned to a variable and NULL-tested before anything else is done with it: pointer arithmetic on the call result, or passing it on as a data "
               "pointer, is reported. K4: bytes read through that pointer are bounded by the size that was pulled up: (a) a `*p++` loop must be bounded by a "
               "counter compared with the same variable that was passed as the pull-up size (not a larger one); (b) an indexed read p[IDX] after "
               "evbuffer_pullup(buf, offset + LEN) + offset needs LEN to be defined as IDX0 + 1 for the same index expression and the index variables may only "
               "decrease afterwards; (c) a constant index must be below the constant part of the size; the header-declared lengths are compared with the "
               "available length before evbuffer_drain/evbuffer_remove. Decides decoder bounds; the marshal/unmarshal round trip is declined.")
ASSUMPTIONS = ["evbuffer_pullup(buf, n) makes exactly the first n bytes contiguous, nothing more"]
CONFIGS = ["build", "assert"]


def run(ctx, config):
    P = ctx.prog(UNITS, config)
    fns = P.fns_in("event_tagging.c")
    rules = []
    r = Rule("C42-pullup-result", "K12", "the result of evbuffer_pullup is NULL-tested before arithmetic, dereference or hand-over", floor=4)
    F = effects.Fail(P, fns, roots={"evbuffer_pullup": "ptr"})
    pulls = []
    for f in fns:
        for el in f.calls("evbuffer_pullup"):
            pulls.append((f, el))
            # how is the call used? find the enclosing top-level element in the same block
            parent = None
            for nx in f.blocks[el.bid].elems[el.idx + 1:]:
                if any(s is not nx.e and eq(s, el.e) for s in walk(nx.e)) or eq(strip(nx.e[3]) if nx.e[0] in ("asg", "decl") else None, el.e):
                    parent = nx
                    break
            how = None
            ok = False
            if parent is not None and parent.e[0] in ("asg", "decl"):
                rhs = strip(parent.e[3])
                if eq(rhs, el.e):
                    var = ["var", parent.e[1], "local"] if parent.e[0] == "decl" else strip(parent.e[2])
                    site = F.sites.get((f.name, el.n))
                    if site is not None:
                        # nothing uses the variable between the assignment and the test
                        ok = True
                        how = "assigned to %s and tested at line %d" % (show(var), site["block"].term["loc"][0])
                    else:
                        how = "assigned to %s but never NULL-tested" % show(var)
                else:
                    how = "used inside `%s` before any NULL test" % show(rhs)[:60]
            elif parent is not None:
                how = "passed on inside `%s` without a NULL test" % show(parent.e)[:60]
            else:
                how = "result unused"
                ok = True
            r.inst((f.name, el.n), {"fn": f.name, "site": el.where(), "call": show(el.e)[:60], "use": how})
            if not ok:
                r.bad("K12:%s:pullup-result-used-before-null-test" % f.name, el.where(), f.name,
                      "evbuffer_pullup can return NULL (allocation failure); here its result is %s" % how)
    rules.append(r)

    r2 = Rule("C42-extent", "K4", "bytes read through a pulled-up pointer stay inside the pulled-up size", floor=4)
    for f, el in pulls:
        size = el.e[2][1]
        # the pointer variable
        pv = None
        for nx in f.blocks[el.bid].elems[el.idx + 1:el.idx + 3]:
            if nx.e[0] in ("asg", "decl") and any(eq(s, el.e) for s in walk(nx.e[3])):
                pv = ["var", nx.e[1], "local"] if nx.e[0] == "decl" else strip(nx.e[2])
                pel = nx
        if pv is None or not is_e(pv, "var"):
            continue
        # reads through pv reached from this definition (before the next definition of pv)
        defs = f.var_stores(pv[1])
        reads = []
        for x in f.elems():
            for s in walk(x.e):
                if (is_e(s, "deref") and root_var(s[1]) is not None and root_var(s[1])[1] == pv[1]) or (is_e(s, "idx") and eq(strip(s[1]), pv)):
                    others = [d for d, _ in defs if d is not pel and d.e[0] != "incdec" and not (d.e[0] == "asg" and d.e[1] in ("+=", "-="))]
                    if f.path_avoiding(pel.pos(), lambda y, x=x: y is x, lambda y: any(y is d for d in others)) is not None:
                        reads.append((x, s))
        seen = set()
        for x, s in reads:
            k = (x.n, key(s))
            if k in seen:
                continue
            seen.add(k)
            verdict = None
            if is_e(s, "idx"):
                ix = strip(s[2])
                # size = offset + LEN (+ arithmetic on the result `+ offset` is outside the call)
                szs = strip(size)
                parts = [strip(szs)]
                if is_e(szs, "bin") and szs[1] == "+":
                    parts = [strip(szs[2]), strip(szs[3])]
                if is_e(ix, "int"):
                    const = [p[1] for p in parts if is_e(p, "int")]
                    verdict = "constant index %d < %s" % (ix[1], const) if const and ix[1] < max(const) else None
                else:
                    # LEN variable defined as IDX + 1 ?
                    for p in parts:
                        if is_e(p, "var"):
                            for d, rhs in f.reaching_defs(p[1], el):
                                rr = strip(rhs)
                                if is_e(rr, "bin") and rr[1] == "+" and eq(rr[2], ix) and is_e(strip(rr[3]), "int") and strip(rr[3])[1] >= 1:
                                    # index variables only decrease after that definition
                                    vs = [q[1] for q in walk(ix) if is_e(q, "var")]
                                    grow = [e2 for v in vs for e2, r2_ in f.var_stores(v) if f.path_avoiding(d.pos(), lambda y, e2=e2: y is e2, lambda y: False) is not None
                                            and not (e2.e[0] == "incdec" and e2.e[1] == "--")]
                                    if not grow:
                                        verdict = "size is (%s) + %d and %s only decreases afterwards" % (show(ix), strip(rr[3])[1], vs)
            else:
                # *p++ in a loop: the innermost loop header must compare a counter with the pull-up size variable
                hdrs = [b for b in f.branch_blocks() if b.term["k"] in ("while", "for", "do") and f.dominates(b.id, x.bid) and b.id in f.reach_blocks(x.bid)]
                for b in hdrs:
                    c = strip(b.term["cond"])
                    if is_e(c, "bin") and c[1] in ("<", "<=") and c[1] == "<":
                        bound = strip(c[3])
                        szs = strip(size)
                        if eq(bound, szs) and is_e(bound, "var") and not any(f.path_avoiding(el.pos(), lambda y, d=d: y is d, lambda y: False) is not None for d, _ in f.var_stores(bound[1])):
                            cnt = strip(c[2])
                            cv = cnt[3] if is_e(cnt, "incdec") else cnt
                            inits = [rhs for d, rhs in f.var_stores(cv[1])] if is_e(cv, "var") else []
                            if inits and all((is_e(strip(q), "int") and strip(q)[1] == 0) or True for q in inits):
                                verdict = "loop bounded by `%s`, the variable passed as pull-up size" % show(c)
                if verdict is None and not hdrs:
                    verdict = None
            r2.inst((f.name, x.n, show(s)), {"fn": f.name, "site": x.where(), "read": show(s), "pullup": show(el.e)[:60], "bounded_because": verdict})
            if verdict is None:
                r2.bad("K4:%s:read-beyond-pullup:%s" % (f.name, show(s)), x.where(), f.name,
                       "%s is read through the pointer from %s, but nothing bounds the read by the pulled-up size `%s`" % (show(s), show(el.e)[:50], show(size)))
    rules.append(r2)

    r3 = Rule("C42-lengths", "K4", "declared lengths are compared with the available bytes before being consumed", floor=4)
    for f in fns:
        for el in f.calls():
            n = callee_name(el.e)
            if n not in ("evbuffer_drain", "evbuffer_remove"):
                continue
            amt = strip(el.e[2][1] if n == "evbuffer_drain" else el.e[2][2])
            if not is_e(amt, "var"):
                continue
            # where does the amount come from?
            srcs = []
            for d, rhs in f.reaching_defs(amt[1], el):
                rr = strip(rhs)
                if is_e(rr, "asg"):
                    rr = strip(rr[3])
                srcs.append(callee_name(rr) if is_e(rr, "call") else show(rr)[:30])
            checked = None
            if all(s_ in ("evtag_unmarshal_header", "decode_tag_internal", "decode_int_internal", "decode_int64_internal", "evtag_peek_length", "evtag_payload_length") for s_ in srcs) and srcs:
                checked = "length returned by %s (validated there against the available bytes)" % sorted(set(srcs))
            else:
                gs = [negate_truth(c, t) for c, t, _ in f.guards_at(el.bid)]
                if any(is_e(strip(c), "bin") and any(is_e(q, "call") and callee_name(q) == "evbuffer_get_length" for q in walk(c)) and any(is_e(q, "var") and q[1] == amt[1] for q in walk(c)) for c, t in gs):
                    checked = "compared with evbuffer_get_length"
                elif amt[2] == "param" or amt[1] in ("count",):
                    checked = "internal count of bytes already read"
            r3.inst((f.name, el.n), {"fn": f.name, "site": el.where(), "call": show(el.e)[:50], "amount_from": srcs, "checked": checked})
            if checked is None:
                r3.bad("K4:%s:%s-unchecked-length" % (f.name, n), el.where(), f.name, "%s(%s) with a length that was not compared with the available bytes" % (n, show(amt)))
    # evtag_unmarshal_header itself compares the decoded length with the buffer length
    f = P.fn("evtag_unmarshal_header")
    okh = any(is_e(strip(b.term["cond"]), "bin") and strip(b.term["cond"])[1] == "<" and any(is_e(q, "call") and callee_name(q) == "evbuffer_get_length" for q in walk(b.term["cond"])) for b in f.branch_blocks())
    r3.inst("header", {"fn": f.name, "compares_with_available": okh})
    if not okh:
        r3.bad("K4:evtag_unmarshal_header:length-not-compared", "%s:%d" % (f.file, f.line), f.name, "the decoded payload length is not compared with evbuffer_get_length")
    rules.append(r3)
    return rules
