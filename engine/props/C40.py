"""C40 — textual address conversion: capacity strictness and index guards (K4)."""
from ..core import Rule
from ..prog import *
from ..facts import AnalysisBroken

UNITS = ["evutil"]
LEVEL = "other"
EXPLANATION = ("K4 GUARD in evutil_inet_ntop: every path that returns dst after copying a locally built string with strlcpy(dst, buf, len) must be "
               "dominated by a guard that implies strlen(buf) < len (the false edge of strlen(buf) >= len); a guard that only implies <= is reported "
               "because the copy is then silently truncated and still reported as success; the snprintf branch must return NULL when r >= len. "
               "In evutil_inet_pton every store words[i] is dominated by the false edge of i > 7 (or an equivalent bound) on the same index with no "
               "increment in between, and the dotted-quad bytes are range-checked before being packed. Decides these bounds; the acceptance set versus "
               "the platform parser is declined.")
ASSUMPTIONS = []
CONFIGS = ["build", "assert"]


def run(ctx, config):
    P = ctx.prog(UNITS, config)
    rules = []
    r = Rule("C40-ntop", "K4", "evutil_inet_ntop returns dst only when the text plus NUL fits", floor=3)
    f = P.fn("evutil_inet_ntop")
    dst, ln = f.params[2][0], f.params[3][0]
    copies = [el for el in f.calls() if callee_name(el.e) in ("strlcpy", "event_strlcpy_") and eq(el.e[2][0], ["var", dst, "param"])]
    if not copies and not any(callee_name(el.e) == "inet_ntop" for el in f.calls()):
        r.brk("no strlcpy into dst and no inet_ntop call in evutil_inet_ntop")
    for c in copies:
        src = strip(c.e[2][1])
        gs = [negate_truth(cc, t) for cc, t, _ in f.guards_at(c.bid)]
        strict = weak = False
        for cc, t in gs:
            cc = strip(cc)
            if is_e(cc, "bin") and cc[1] in (">", ">=") and not t and is_e(strip(cc[2]), "call") and callee_name(strip(cc[2])) == "strlen" \
                    and eq(strip(cc[2])[2][0], src) and eq(cc[3], ["var", ln, "param"]):
                if cc[1] == ">=":
                    strict = True
                else:
                    weak = True
        r.inst(("copy", c.n), {"site": c.where(), "copy": show(c.e), "guard": "strlen >= len rejected" if strict else ("only strlen > len rejected" if weak else None)})
        if not strict:
            r.bad("K4:evutil_inet_ntop:capacity-guard-not-strict:%s" % show(src), c.where(), f.name,
                  "strlcpy(%s, %s, %s) is reached with strlen(%s) == %s possible (%s): the text is truncated but the function reports success" %
                  (dst, show(src), ln, show(src), ln, "guard is `>`" if weak else "no guard"))
    # snprintf branch
    sn = [el for el in f.calls("evutil_snprintf") if eq(el.e[2][0], ["var", dst, "param"])]
    for s in sn:
        blk = f.blocks[s.bid]
        rv = None
        for nx in blk.elems[s.idx + 1:s.idx + 2]:
            if nx.e[0] == "asg" and eq(strip(nx.e[3]), s.e):
                rv = strip(nx.e[2])
        ok = False
        if rv is not None:
            for rt in f.returns():
                if eq(rt.e[1], ["var", dst, "param"]) and f.dominates(s.bid, rt.bid):
                    gs = [negate_truth(cc, t) for cc, t, _ in f.guards_at(rt.bid)]
                    if any((not t) and is_e(strip(cc), "bin") and strip(cc)[1] == ">=" and eq(strip(strip(cc)[2]), rv) and eq(strip(cc)[3], ["var", ln, "param"]) for cc, t in gs):
                        ok = True
        r.inst(("snprintf", s.n), {"site": s.where(), "success_requires_r_lt_len": ok})
        if not ok:
            r.bad("K4:evutil_inet_ntop:snprintf-result-guard", s.where(), f.name, "dst is returned although snprintf's result may be >= len (truncated)")
    rules.append(r)

    r2 = Rule("C40-pton", "K4", "evutil_inet_pton: words[] index bounded, dotted-quad bytes range-checked", floor=3)
    g = P.fn("evutil_inet_pton")
    for el, lhs, op, rhs in g.stores():
        l = strip(lhs)
        if is_e(l, "idx") and eq(l[1], ["var", "words", "local"]):
            ix = strip(l[2])
            if is_e(ix, "int"):
                r2.inst(("const", el.n), {"site": el.where(), "store": show(el.e)[:50], "index": ix[1], "ok": 0 <= ix[1] <= 7})
                if not (0 <= ix[1] <= 7):
                    r2.bad("K4:evutil_inet_pton:words-const-index", el.where(), g.name, "constant index %d outside words[8]" % ix[1])
                continue
            v = ix[3] if is_e(ix, "incdec") else ix
            gs = [negate_truth(cc, t) for cc, t, b in g.guards_at(el.bid)]
            ok = any((not t) and is_e(strip(cc), "bin") and strip(cc)[1] == ">" and eq(strip(cc)[2], v) and is_e(strip(strip(cc)[3]), "int") and strip(strip(cc)[3])[1] <= 7 for cc, t in gs) or \
                any(t and is_e(strip(cc), "bin") and strip(cc)[1] == "<" and eq(strip(cc)[2], v) and is_e(strip(strip(cc)[3]), "int") and strip(strip(cc)[3])[1] <= 8 for cc, t in gs)
            r2.inst(("var", el.n), {"site": el.where(), "store": show(el.e)[:50], "bounded": ok})
            if not ok:
                r2.bad("K4:evutil_inet_pton:words-index-unbounded", el.where(), g.name, "words[%s] is stored without a dominating bound on %s" % (show(ix), show(v)))
    # bytes packed into words[6]/[7] and into s_addr are dominated by <= 255 tests
    for el, lhs, op, rhs in g.stores():
        l = strip(lhs)
        packs = [q for q in walk(rhs) if is_e(q, "bin") and q[1] == "<<" and is_e(strip(q[2]), "var") and strip(q[2])[2] == "local"]
        if packs and (is_e(l, "idx") or is_e(l, "fld")):
            vs = set(strip(q[2])[1] for q in packs) | set(q[1] for q in walk(rhs) if is_e(q, "var") and q[2] == "local" and g.var_type(q[1]) and "unsigned" in g.var_type(q[1]))
            gs = [negate_truth(cc, t) for cc, t, b in g.guards_at(el.bid)]
            checked = set()
            for cc, t in gs:
                cc = strip(cc)
                if (not t) and is_e(cc, "bin") and cc[1] == ">" and is_e(strip(cc[2]), "var") and is_e(strip(cc[3]), "int") and strip(cc[3])[1] == 255:
                    checked.add(strip(cc[2])[1])
            r2.inst(("pack", el.n), {"site": el.where(), "store": show(el.e)[:60], "bytes": sorted(vs), "range_checked": sorted(checked)})
            if not vs <= checked:
                r2.bad("K4:evutil_inet_pton:byte-not-range-checked", el.where(), g.name, "%s packed without a dominating > 255 rejection" % sorted(vs - checked))
    rules.append(r2)
    return rules
