"""C40 — textual address conversion: capacity strictness and index guards (K4)."""
from ..core import Rule
from ..prog import *
from ..facts import AnalysisBroken
from ..interp import normx, nkey, run_all
from .. import pton as PT

UNITS = ["evutil"]
LEVEL = "other"
EXPLANATION = ("K4 GUARD in evutil_inet_ntop: every path that returns dst after copying a locally built string with strlcpy(dst, buf, len) must be "
               "dominated by a guard that implies strlen(buf) < len (the false edge of strlen(buf) >= len); a guard that only implies <= is reported "
               "because the copy is then silently truncated and still reported as success; the snprintf branch must return NULL when r >= len. "
               "In evutil_inet_pton every store words[i] is dominated by the false edge of i > 7 (or an equivalent bound) on the same index with no "
               "increment in between, and the dotted-quad bytes are range-checked before being packed. Decides these bounds; the acceptance set versus "
               "the platform parser is declined.")
ASSUMPTIONS = []
CONFIGS = ["build", "assert"]


def run(ctx, config):
    P = ctx.prog(UNITS, config)
    rules = []
    r = Rule("C40-ntop", "K4", "evutil_inet_ntop returns dst only when the text plus NUL fits", floor=3)
    f = P.fn("evutil_inet_ntop")
    dst, ln = f.params[2][0], f.params[3][0]
    copies = [el for el in f.calls() if callee_name(el.e) in ("strlcpy", "event_strlcpy_") and eq(el.e[2][0], ["var", dst, "param"])]
    if not copies and not any(callee_name(el.e) == "inet_ntop" for el in f.calls()):
        r.brk("no strlcpy into dst and no inet_ntop call in evutil_inet_ntop")
    for c in copies:
        src = strip(c.e[2][1])
        gs = [negate_truth(cc, t) for cc, t, _ in f.guards_at(c.bid)]
        strict = weak = False
        for cc, t in gs:
            cc = strip(cc)
            if is_e(cc, "bin") and cc[1] in (">", ">=") and not t and is_e(strip(cc[2]), "call") and callee_name(strip(cc[2])) == "strlen" \
                    and eq(strip(cc[2])[2][0], src) and eq(cc[3], ["var", ln, "param"]):
                if cc[1] == ">=":
                    strict = True
                else:
                    weak = True
        r.inst(("copy", c.n), {"site": c.where(), "copy": show(c.e), "guard": "strlen >= len rejected" if strict else ("only strlen > len rejected" if weak else None)})
        if not strict:
            r.bad("K4:evutil_inet_ntop:capacity-guard-not-strict:%s" % show(src), c.where(), f.name,
                  "strlcpy(%s, %s, %s) is reached with strlen(%s) == %s possible (%s): the text is truncated but the function reports success" %
                  (dst, show(src), ln, show(src), ln, "guard is `>`" if weak else "no guard"))
    # snprintf branch
    sn = [el for el in f.calls("evutil_snprintf") if eq(el.e[2][0], ["var", dst, "param"])]
    for s in sn:
        blk = f.blocks[s.bid]
        rv = None
        for nx in blk.elems[s.idx + 1:s.idx + 2]:
            if nx.e[0] == "asg" and eq(strip(nx.e[3]), s.e):
                rv = strip(nx.e[2])
        ok = False
        if rv is not None:
            for rt in f.returns():
                if eq(rt.e[1], ["var", dst, "param"]) and f.dominates(s.bid, rt.bid):
                    gs = [negate_truth(cc, t) for cc, t, _ in f.guards_at(rt.bid)]
                    if any((not t) and is_e(strip(cc), "bin") and strip(cc)[1] == ">=" and eq(strip(strip(cc)[2]), rv) and eq(strip(cc)[3], ["var", ln, "param"]) for cc, t in gs):
                        ok = True
        r.inst(("snprintf", s.n), {"site": s.where(), "success_requires_r_lt_len": ok})
        if not ok:
            r.bad("K4:evutil_inet_ntop:snprintf-result-guard", s.where(), f.name, "dst is returned although snprintf's result may be >= len (truncated)")
    rules.append(r)

    r2 = Rule("C40-pton", "K4", "evutil_inet_pton: words[] index bounded, dotted-quad bytes range-checked", floor=3)
    g = P.fn("evutil_inet_pton")
    for el, lhs, op, rhs in g.stores():
        l = strip(lhs)
        if is_e(l, "idx") and eq(l[1], ["var", "words", "local"]):
            ix = strip(l[2])
            if is_e(ix, "int"):
                r2.inst(("const", el.n), {"site": el.where(), "store": show(el.e)[:50], "index": ix[1], "ok": 0 <= ix[1] <= 7})
                if not (0 <= ix[1] <= 7):
                    r2.bad("K4:evutil_inet_pton:words-const-index", el.where(), g.name, "constant index %d outside words[8]" % ix[1])
                continue
            v = ix[3] if is_e(ix, "incdec") else ix
            gs = [negate_truth(cc, t) for cc, t, b in g.guards_at(el.bid)]
            ok = any((not t) and is_e(strip(cc), "bin") and strip(cc)[1] == ">" and eq(strip(cc)[2], v) and is_e(strip(strip(cc)[3]), "int") and strip(strip(cc)[3])[1] <= 7 for cc, t in gs) or \
                any(t and is_e(strip(cc), "bin") and strip(cc)[1] == "<" and eq(strip(cc)[2], v) and is_e(strip(strip(cc)[3]), "int") and strip(strip(cc)[3])[1] <= 8 for cc, t in gs)
            r2.inst(("var", el.n), {"site": el.where(), "store": show(el.e)[:50], "bounded": ok})
            if not ok:
                r2.bad("K4:evutil_inet_pton:words-index-unbounded", el.where(), g.name, "words[%s] is stored without a dominating bound on %s" % (show(ix), show(v)))
    # bytes packed into words[6]/[7] and into s_addr are dominated by <= 255 tests
    for el, lhs, op, rhs in g.stores():
        l = strip(lhs)
        packs = [q for q in walk(rhs) if is_e(q, "bin") and q[1] == "<<" and is_e(strip(q[2]), "var") and strip(q[2])[2] == "local"]
        if packs and (is_e(l, "idx") or is_e(l, "fld")):
            vs = set(strip(q[2])[1] for q in packs) | set(q[1] for q in walk(rhs) if is_e(q, "var") and q[2] == "local" and g.var_type(q[1]) and "unsigned" in g.var_type(q[1]))
            gs = [negate_truth(cc, t) for cc, t, b in g.guards_at(el.bid)]
            checked = set()
            for cc, t in gs:
                cc = strip(cc)
                if (not t) and is_e(cc, "bin") and cc[1] == ">" and is_e(strip(cc[2]), "var") and is_e(strip(cc[3]), "int") and strip(cc[3])[1] == 255:
                    checked.add(strip(cc[2])[1])
            r2.inst(("pack", el.n), {"site": el.where(), "store": show(el.e)[:60], "bytes": sorted(vs), "range_checked": sorted(checked)})
            if not vs <= checked:
                r2.bad("K4:evutil_inet_pton:byte-not-range-checked", el.where(), g.name, "%s packed without a dominating > 255 rejection" % sorted(vs - checked))
    rules.append(r2)
    rules.append(rule_v4form(P))
    rules.append(PT.rule_pton(P, "C40-pton-strict"))
    return rules


def rule_v4form(P):
    """the dotted-quad forms of evutil_inet_ntop(AF_INET6) print only words[5] and the last four bytes: they may be chosen only for addresses whose other words are zero"""
    r = Rule("C40-v4form", "K6", "IPv6 addresses are printed in an embedded-IPv4 form only when that form keeps every non-zero word (384 word patterns)", floor=300)
    f = P.fn("evutil_inet_ntop")
    af, src = f.params[0][0], f.params[1][0]
    fmts = [el for el in f.calls("evutil_snprintf") if len(el.e[2]) > 2 and is_e(strip(el.e[2][2]), "str") and "%d.%d.%d.%d" in strip(el.e[2][2])[1] and ":" in strip(el.e[2][2])[1]]
    if not fmts:
        r.brk("evutil_inet_ntop: no embedded-IPv4 format found")
        return r
    cpinit = [el for el in f.elems() if el.e[0] == "asg" and is_e(strip(el.e[2]), "var") and strip(el.e[2])[1] == "cp" and is_e(strip(el.e[3]), "var") and strip(el.e[3])[1] == "buf"]
    enumv = {"AF_INET6": 10}
    nb = 0
    import itertools
    for ws in itertools.product(*([(0, 1)] * 5 + [(0, 1, 0xffff)] + [(0, 1)] * 2)):
        env = {"#typed": 1, af: 10, src: 1, "addr": 1, f.params[2][0]: 2, f.params[3][0]: 64}
        base = ["var", "addr", "local"]
        for i, w in enumerate(ws):
            for j, bv in ((2 * i, w >> 8), (2 * i + 1, w & 0xff)):
                env[("s6", j)] = bv
        def hook(el, e_):
            n = callee_name(el.e)
            if n in ("memcpy", "__builtin_memcpy", "__builtin___memcpy_chk"):
                d = strip(el.e[2][0])
                try:
                    cnt = evalx(normx(el.e[2][2]), e_, P)
                except EvalError:
                    return "impure"
                if is_e(d, "var"):
                    # little-endian host: element k of a uint32 array gets bytes 4k..4k+3
                    for k in range(cnt // 4):
                        e_[nkey(["idx", d, ["int", k]])] = sum(e_[("s6", 4 * k + t)] << (8 * t) for t in range(4))
                    return 0
                return "impure"
            if n == "evutil_snprintf":
                e_["#fmt"] = strip(el.e[2][2])[1] if is_e(strip(el.e[2][2]), "str") else "?"
                return 5
            return None
        env2 = dict(env)
        def stop(el):
            return (el in cpinit) or (el.e[0] == "call" and callee_name(el.e) == "strlen")
        # concrete keys for addr->s6_addr[k] (s6_addr is a macro: take the spelling lvx extracted)
        sample = None
        for el in f.elems():
            for q in walk(el.e):
                if is_e(q, "idx") and any(is_e(z, "fld") and "in6" in z[2] for z in walk(q[1])) and root_var(q) is not None and root_var(q)[1] == "addr":
                    sample = q
                    break
            if sample:
                break
        if sample is None:
            r.brk("evutil_inet_ntop: addr->s6_addr[] reads not found")
            return r
        for j in range(16):
            env2[nkey(["idx", sample[1], ["int", j]])] = env[("s6", j)]
        outs = run_all(f, (f.entry, 0), env2, stop, P, hook, max_steps=600)
        for o in outs:
            if o.kind == "exit" and o.why == "noreturn":
                continue
            if o.kind != "stop":
                r.brk("evutil_inet_ntop(%s): %s %s" % (["%x" % w for w in ws], o.kind, o.why))
                return r
            fmt = o.env.get("#fmt")
            v4 = fmt is not None and "%d.%d.%d.%d" in fmt
            if v4:
                keeps = all(w == 0 for w in ws[:5]) and (("%x" in fmt) or ws[5] == 0)
            else:
                keeps = True
            r.inst(ws, {"words": ["%x" % w for w in ws], "form": fmt if v4 else "hex groups"}, nontrivial=v4)
            if not keeps and nb < 5:
                nb += 1
                r.bad("K6:evutil_inet_ntop:v4-form-drops-words", fmts[0].where(), f.name,
                      "address %s is printed with the format %r, which shows only %s: the text parses back to a different address" % (":".join("%x" % w for w in ws), fmt, "words[5] and the last four bytes" if "%x" in fmt else "the last four bytes"))
    return r
