"""C03 — priorities and loop control: finite-domain evaluation of the extracted loop-control regions against the documented rules (K6/K3), who-may (K2)."""
from ..core import Rule
from ..prog import *
from ..facts import AnalysisBroken
from ..interp import normx, nkey, run_all
from ..fsm import Machine, EVLIST as L, EV

UNITS = ["event", "signal", "signalfd"]
LEVEL = "other"
CONFIGS = ["build", "assert"]
EXPLANATION = (
    "The control decisions of the loop read a handful of small-domain values (loop flags, event_break/gotterm/continue, 'any callbacks active', "
    "'any events', the results of the queue runners). Each control region is evaluated from its extracted CFG on every combination and compared "
    "with the documented rule: (L1) event_base_loop from the loop head to the backend wait: terminates on gotterm/break, exits with 1 exactly when "
    "!NO_EXIT_ON_EMPTY and no events and nothing active, otherwise promotes the later queue and waits, computing the wait with timeout_next exactly when "
    "nothing is active and !NONBLOCK; from the wait to the next iteration: -1 on backend failure, else time update, timeout_process, callbacks iff any are "
    "active, done exactly per EVLOOP_ONCE / EVLOOP_NONBLOCK; (L2) event_process_active_single_queue after each callback: -1 on break, count at the "
    "callback quota, count at the time quota, leave the queue on event_continue, else next callback, counting only non-internal callbacks; "
    "(L3) event_process_active: queues ascending, INT_MAX/no deadline below limit_callbacks_after_prio, stop after the first queue that ran a "
    "non-internal callback or returned -1, running priority reset; (L4) the later queue is drained only into the active queues, the deferred quota "
    "takes the later branch exactly above MAX_DEFERREDS_QUEUED and counts only successful activations, the quota restarts each iteration; (L5) loopbreak/"
    "loopcontinue store their flag and notify a foreign-thread loop, loopexit is a once-timer whose callback stores event_gotterm; (L6) activating an event "
    "of higher priority than the running one always sets event_continue. Declined: callback order over whole histories, starvation bounds in time.")
ASSUMPTIONS = ["N_ACTIVE_CALLBACKS(base) is base->event_count_active", "user callbacks may change any loop-control flag (all values enumerated after each callback)"]

BF = "event_base."


def bkey(base, f):
    return nkey(["fld", base, BF + f, "->"])


def rule_loop(P):
    r = Rule("C03-loop", "K6/K3", "event_base_loop: loop head -> wait and wait -> next iteration decisions equal the documented rules on every combination", floor=60)
    Ls = [x for x in P.fns_in("event.c") if any(True for _ in x.calls(slot="eventop.dispatch"))]
    if len(Ls) != 1:
        r.brk("expected one caller of eventop.dispatch")
        return r
    f = Ls[0]
    base = ["var", f.params[0][0], "param"]
    flagsv = f.params[1][0]
    disp = list(f.calls(slot="eventop.dispatch"))[0]
    hdrs = [h for h in f.loops_of(disp.bid)]
    # outermost loop containing dispatch = the main loop
    hdr = max(hdrs, key=lambda h: len(f.natural_loop(h))) if hdrs else None
    if hdr is None:
        r.brk("dispatch is not inside a loop")
        return r

    def notable(el):
        if el.e[0] == "call":
            n = callee_name(el.e)
            if n in ("timeout_next", "event_queue_make_later_events_active", "timeout_process", "event_process_active", "update_time_cache", "clear_time_cache"):
                return n
            if callee_slot(el.e) == "eventop.dispatch":
                return "dispatch"
        if el.mac and "evutil_timerclear" in el.mac:
            return "TAILQ_timerclear"   # (prefix only to be collapsed when repeated)
        return None

    # ---- part 1: loop head to wait
    nbad = 0
    for gotterm in (0, 1):
        for brk in (0, 1):
            for fl in range(8):
                for active in (0, 2):
                    for have in (0, 1):
                        env = {base[1]: 1, flagsv: fl, "done": 0, bkey(base, "event_gotterm"): gotterm, bkey(base, "event_break"): brk,
                               bkey(base, "event_count_active"): active, bkey(base, "th_base_lock"): 0, "event_debug_logging_mask_": 0,
                               bkey(base, "n_deferreds_queued"): 7, bkey(base, "event_continue"): 1}
                        hook = lambda el, e_: have if callee_name(el.e) == "event_haveevents" else None
                        outs = run_all(f, (hdr, 0), env, lambda el: el is disp, P, hook, max_steps=2000, notable=notable)
                        for o in outs:
                            if o.kind == "exit" and o.why == "noreturn":
                                continue
                            tr = o.env.get("#trace", ())
                            if o.kind == "unknown":
                                r.brk("loop head region: %s" % o.why)
                                return r
                            waits = o.kind == "stop"
                            empty_exit = (not fl & 4) and not have and not active
                            want_wait = not gotterm and not brk and not empty_exit
                            r.inst(("head", gotterm, brk, fl, active, have), {"gotterm": gotterm, "break": brk, "loop_flags": fl, "active": active, "have_events": have,
                                                                                "reaches_wait": waits, "calls": list(tr)})
                            msg = None
                            if waits != want_wait:
                                msg = "%s the backend wait, documented: %s" % ("reaches" if waits else "does not reach", "wait" if want_wait else "leave the loop")
                            elif waits:
                                if "event_queue_make_later_events_active" not in tr:
                                    msg = "waits without promoting the later queue"
                                want_next = (not active) and not (fl & 2)
                                if ("timeout_next" in tr) != want_next:
                                    msg = "timeout_next %s called (must be called exactly when nothing is active and !EVLOOP_NONBLOCK)" % ("is" if "timeout_next" in tr else "is not")
                                if not want_next and "TAILQ_timerclear" not in tr:
                                    msg = "polls without clearing the wait time"
                                if o.env.get(bkey(base, "event_continue")) != 0 or o.env.get(bkey(base, "n_deferreds_queued")) != 0:
                                    msg = "event_continue / n_deferreds_queued are not reset at the start of the iteration"
                            elif not gotterm and not brk and empty_exit:
                                if o.kind != "ret" or evalx_safe(o, P) != 1:
                                    msg = "the no-events exit does not return 1"
                            if msg and nbad < 3:
                                nbad += 1
                                r.bad("K6:%s:head:%s" % (f.name, msg.split()[0]), "%s:%d" % (f.file, f.blocks[hdr].term["loc"][0] if f.blocks[hdr].term else f.line), f.name,
                                      "gotterm=%d break=%d flags=%#x active=%d have_events=%d: %s" % (gotterm, brk, fl, active, have, msg))
    # ---- part 2: wait to next iteration / return
    res_el = None
    blk = f.blocks[disp.bid]
    nxt = blk.elems[disp.idx + 1] if disp.idx + 1 < len(blk.elems) else None
    if nxt is None or nxt.e[0] != "asg":
        r.brk("dispatch result is not stored")
        return r
    resv = strip(nxt.e[2])
    for res in (0, -1):
        for fl in range(8):
            for active in (0, 3):
                for n in (0, 1, -1):
                    for active_after in (0, 1):
                        if not active and (n != 0 or active_after):
                            continue
                        env = {base[1]: 1, flagsv: fl, "done": 0, resv[1]: res, bkey(base, "event_count_active"): active, bkey(base, "th_base_lock"): 0,
                               "event_debug_logging_mask_": 0, "retval": 0}
                        def hook(el, e_):
                            if callee_name(el.e) == "event_process_active":
                                e_[bkey(base, "event_count_active")] = active_after
                                return n
                            return None
                        stop = lambda el: el.bid == hdr
                        outs = run_all(f, (disp.bid, disp.idx + 2), env, lambda el: False, P, hook, max_steps=2000, notable=notable, exit_blocks=(hdr,))
                        for o in outs:
                            if o.kind == "exit" and o.why == "noreturn":
                                continue
                            if o.kind == "unknown":
                                r.brk("post-wait region: %s" % o.why)
                                return r
                            tr = o.env.get("#trace", ())
                            done = o.env.get("done")
                            r.inst(("tail", res, fl, active, n, active_after), {"dispatch_result": res, "loop_flags": fl, "active": active, "processed": n, "active_after": active_after,
                                                                                  "calls": list(tr), "done": done, "ends": o.kind})
                            msg = None
                            if res == -1:
                                if o.kind != "ret" or evalx_safe(o, P) != -1:
                                    msg = "backend failure does not return -1"
                            else:
                                if o.kind == "ret":
                                    msg = "returns although the backend succeeded"
                                else:
                                    if list(tr[:2]) != ["update_time_cache", "timeout_process"]:
                                        msg = "after the wait the order is %s, documented: update_time_cache, timeout_process" % list(tr)
                                    if ("event_process_active" in tr) != bool(active):
                                        msg = "event_process_active %s called with active=%d" % ("is" if "event_process_active" in tr else "is not", active)
                                    want_done = 1 if ((active and (fl & 1) and active_after == 0 and n != 0) or (not active and (fl & 2))) else 0
                                    if done != want_done:
                                        msg = "done=%s, documented %d" % (done, want_done)
                            if msg and nbad < 6:
                                nbad += 1
                                r.bad("K6:%s:tail:%s" % (f.name, msg.split()[0]), disp.where(), f.name,
                                      "dispatch=%d flags=%#x active=%d processed=%d active_after=%d: %s" % (res, fl, active, n, active_after, msg))
    return r


def evalx_safe(o, P):
    try:
        return evalx(normx(o.at.e[1]), o.env, P)
    except (EvalError, IndexError, AttributeError):
        return None


def rule_single(P):
    r = Rule("C03-single", "K6", "event_process_active_single_queue: decisions after each callback, counting, removal before the callback", floor=40)
    f = P.fn("event_process_active_single_queue")
    base = ["var", f.params[0][0], "param"]
    maxp = f.params[2][0]
    endp = f.params[3][0]
    # start: the store `base->current_event = NULL` that every callback path reaches (post-dominates the closure switch)
    sw = [b for b in f.branch_blocks() if b.term.get("k") == "switch"]
    if len(sw) != 1:
        r.brk("expected one closure switch")
        return r
    brkt = [b for b in f.branch_blocks() if any(is_e(q, "fld") and q[2] == BF + "event_break" for q in walk(b.term["cond"]))]
    if len(brkt) != 1:
        r.brk("expected one test of event_break")
        return r
    cands = [el for el, lhs, op, rhs in f.stores() if fields_of(lhs)[-1:] == [BF + "current_event"] and f.dominates(el.bid, brkt[0].id)
             and sw[0].id in f.can_reach_from(el.bid) and f.dominates(sw[0].id, el.bid)]
    if not cands:
        r.brk("no `current_event = NULL` between the closure switch and the event_break test")
        return r
    start = cands[-1]
    adv = [el for el, rhs in f.var_stores("evcb") if any(is_e(q, "fld") and q[2].endswith(".tqh_first") for q in walk(rhs))]
    if not adv:
        r.brk("queue head read not found")
        return r
    g = list(f.calls("gettime"))
    nowv = strip(strip(g[0].e[2][1])[1]) if g else ["var", "now", "local"]
    nbad = 0
    for brk in (0, 1):
        for cont in (0, 1):
            for count, mx in ((0, 5), (1, 5), (5, 5), (6, 5)):
                for endnn in (0, 1):
                    for late in (0, 1):
                        env = {base[1]: 1, "count": count, maxp: mx, endp: endnn, bkey(base, "event_break"): brk, bkey(base, "event_continue"): cont,
                               bkey(base, "th_base_lock"): 0, bkey(base, "current_event_waiters"): 0, "event_debug_logging_mask_": 0,
                               nkey(["fld", nowv, "timeval.tv_sec", "."]): 10 if late else 1, nkey(["fld", nowv, "timeval.tv_usec", "."]): 0,
                               nkey(["fld", ["var", endp, "param"], "timeval.tv_sec", "->"]): 5, nkey(["fld", ["var", endp, "param"], "timeval.tv_usec", "->"]): 0}
                        outs = run_all(f, (start.bid, start.idx), env, lambda el: el in adv, P, lambda el, e_: None, max_steps=800)
                        for o in outs:
                            if o.kind == "exit" and o.why == "noreturn":
                                continue
                            if o.kind == "unknown":
                                r.brk("post-callback region: %s" % o.why)
                                return r
                            if brk:
                                want = ("ret", -1)
                            elif count >= mx:
                                want = ("ret", count)
                            elif count and endnn and late:
                                want = ("ret", count)
                            elif cont:
                                want = ("ret", count)
                            else:
                                want = ("next", None)
                            got = ("ret", evalx_safe(o, P)) if o.kind == "ret" else ("next", None) if o.kind == "stop" else (o.kind, None)
                            r.inst(("after", brk, cont, count, mx, endnn, late), {"break": brk, "continue": cont, "count": count, "max": mx, "deadline": bool(endnn), "past_deadline": bool(late), "outcome": list(got)})
                            if got != want and nbad < 3:
                                nbad += 1
                                r.bad("K6:%s:after-callback" % f.name, start.where(), f.name,
                                      "break=%d continue=%d count=%d max=%d deadline=%s past=%s: %s, documented %s" % (brk, cont, count, mx, bool(endnn), bool(late), got, want))
    # counting: ++count guarded by !(flags & INTERNAL); removal precedes the callback
    incs = [el for el, lhs, op, rhs in f.stores() if op == "++" and is_e(strip(lhs), "var") and strip(lhs)[1] == "count"]
    ok = len(incs) == 1 and any((not t) and is_e(strip(c), "bin") and strip(c)[1] == "&" and is_e(strip(strip(c)[3]), "int") and strip(strip(c)[3])[1] == L["INTERNAL"]
                                for c, t in [negate_truth(c, t) for c, t, _ in f.guards_at(incs[0].bid)])
    r.inst("count", {"increments": [x.where() for x in incs], "guarded_by_not_internal": ok})
    if not ok:
        r.bad("K4:%s:count-internal" % f.name, incs[0].where() if incs else f.file, f.name, "the processed count is not incremented exactly for non-internal callbacks (internal callbacks would end the priority scan)")
    removers = [el for el in f.calls() if callee_name(el.e) in ("event_queue_remove_active", "event_del_nolock_")]
    w = f.path_avoiding((f.blocks[adv[0].bid].id, adv[0].idx), lambda el: el.bid == sw[0].id or (f.dominates(sw[0].id, el.bid) and el.e[0] == "call"), lambda el: el in removers)
    r.inst("dequeue", {"removers": [x.where() for x in removers], "switch_reachable_without_removal": bool(w)})
    if w is not None:
        r.bad("K3:%s:callback-still-queued" % f.name, "%s:%d" % (f.file, sw[0].term["loc"][0]), f.name, "a callback can be invoked while still on the active queue (it would run again / loop forever)")
    return r


def rule_prio(P):
    r = Rule("C03-prio", "K6", "event_process_active: ascending scan, quota only from limit_after_prio, stop after first real work or -1", floor=100)
    f = P.fn("event_process_active")
    base = ["var", f.params[0][0], "param"]
    NQ = 3
    nbad = 0
    for pattern in range(1 << NQ):
        for limit in (0, 1, 3):
            for script in [(a, b, c) for a in (-1, 0, 1) for b in (-1, 0, 1) for c in (-1, 0, 1)]:
                env = {base[1]: 1, bkey(base, "nactivequeues"): NQ, bkey(base, "limit_callbacks_after_prio"): limit, bkey(base, "max_dispatch_callbacks"): 77,
                       nkey(["fld", ["fld", base, BF + "max_dispatch_time", "->"], "timeval.tv_sec", "."]): 0, bkey(base, "event_running_priority"): -5,
                       "event_debug_logging_mask_": 0}
                for i in range(NQ):
                    env[nkey(["fld", ["idx", ["fld", base, BF + "activequeues", "->"], ["int", i]], "evcallback_list.tqh_first", "."])] = 1 if pattern >> i & 1 else 0
                calls = []
                def hook(el, e_):
                    if callee_name(el.e) == "event_process_active_single_queue":
                        pri = e_.get(bkey(base, "event_running_priority"))
                        try:
                            mx = evalx(normx(el.e[2][2]), e_, P)
                        except EvalError:
                            mx = None
                        try:
                            en = evalx(normx(el.e[2][3]), e_, P)
                        except EvalError:
                            en = 1    # address of a local: non-NULL
                        k = sum(1 for x in e_.get("#trace", ()) if x == "single")
                        return script[k] if k < len(script) else 0
                    return None
                def notable(el):
                    if el.e[0] == "call" and callee_name(el.e) == "event_process_active_single_queue":
                        return "single"
                    return None
                # record the arguments through a second notable channel: evaluate at call time via hook closure
                seen_args = []
                def hook2(el, e_):
                    if callee_name(el.e) == "event_process_active_single_queue":
                        pri = e_.get(bkey(base, "event_running_priority"))
                        try:
                            mx = evalx(normx(el.e[2][2]), e_, P)
                        except EvalError:
                            mx = None
                        a3 = strip(el.e[2][3])
                        try:
                            en = evalx(normx(a3), e_, P)
                        except EvalError:
                            en = 1
                        k = len(e_.get("#args", ()))
                        e_["#args"] = e_.get("#args", ()) + ((pri, mx, 1 if en else 0),)
                        return script[k] if k < len(script) else 0
                    if callee_name(el.e) in ("gettime", "update_time_cache"):
                        return 0
                    return None
                outs = run_all(f, (f.entry, 0), env, lambda el: False, P, hook2, max_steps=1500)
                # model
                want_calls = []
                c = 0
                k = 0
                for i in range(NQ):
                    if pattern >> i & 1:
                        want_calls.append((i, 0x7fffffff if i < limit else 77, 0 if i < limit else 1))
                        c = script[k]
                        k += 1
                        if c < 0 or c > 0:
                            break
                for o in outs:
                    if o.kind == "exit" and o.why == "noreturn":
                        continue
                    if o.kind != "ret":
                        r.brk("event_process_active: evaluation ended as %s (%s)" % (o.kind, o.why))
                        return r
                    got_calls = list(o.env.get("#args", ()))
                    ret = evalx_safe(o, P)
                    rp = o.env.get(bkey(base, "event_running_priority"))
                    r.inst((pattern, limit, script[:len(want_calls)]), {"nonempty": bin(pattern), "limit_after_prio": limit, "results": list(script[:len(want_calls)]), "calls": got_calls, "ret": ret})
                    if (got_calls != want_calls or ret != c or rp != -1) and nbad < 3:
                        nbad += 1
                        r.bad("K6:event_process_active:scan", "%s:%d" % (f.file, f.line), f.name,
                              "non-empty queues %s, limit_after_prio=%d, queue results %s: runs (priority, max, deadline?) %s returns %s running_priority=%s; documented %s returns %s, running priority reset to -1"
                              % (bin(pattern), limit, list(script), got_calls, ret, rp, want_calls, c))
    return r


def rule_later(P):
    r = Rule("C03-later", "K6/K2/K5", "later queue drained only into active queues; deferred quota branch and counting", floor=10)
    f = P.fn("event_deferred_cb_schedule_")
    base = ["var", f.params[0][0], "param"]
    nbad = 0
    for nq in (31, 32, 33, 100):
        for rv in (0, 1):
            env = {base[1]: 1, bkey(base, "n_deferreds_queued"): nq, bkey(base, "th_base_lock"): 0}
            def hook(el, e_):
                n = callee_name(el.e)
                if n in ("event_callback_activate_later_nolock_", "event_callback_activate_nolock_"):
                    e_["#which"] = n
                    return rv
                return None
            for o in run_all(f, (f.entry, 0), env, lambda el: False, P, hook):
                if o.kind != "ret":
                    r.brk("event_deferred_cb_schedule_: %s %s" % (o.kind, o.why))
                    return r
                which = o.env.get("#which")
                after = o.env.get(bkey(base, "n_deferreds_queued"))
                want_which = "event_callback_activate_later_nolock_" if nq > 32 else "event_callback_activate_nolock_"
                want_after = nq + (1 if (nq <= 32 and rv) else 0)
                r.inst(("quota", nq, rv), {"queued": nq, "activation_result": rv, "callee": which, "queued_after": after, "ret": evalx_safe(o, P)})
                if (which != want_which or after != want_after or evalx_safe(o, P) != rv) and nbad < 3:
                    nbad += 1
                    r.bad("K6:event_deferred_cb_schedule_:quota", "%s:%d" % (f.file, f.line), f.name,
                          "n_deferreds_queued=%d, activation result %d: calls %s, count becomes %s, returns %s; documented %s, %d, %d" % (nq, rv, which, after, evalx_safe(o, P), want_which, want_after, rv))
    # draining
    g = P.fn("event_queue_make_later_events_active")
    rem = [el for el in g.elems() if el.mac and el.mac[-1] == "TAILQ_REMOVE" and any(is_e(q, "fld") and q[2] == BF + "active_later_queue" for q in walk(el.e))]
    ins = [el for el in g.elems() if el.mac and el.mac[-1] == "TAILQ_INSERT_TAIL" and any(is_e(q, "fld") and q[2] == BF + "activequeues" for q in walk(el.e))]
    ok = bool(rem) and bool(ins) and g.tied(rem[0], ins[-1]) or (bool(rem) and bool(ins) and g.exit_reachable_avoiding(rem[0].pos(), lambda el: el in ins) is None)
    idx_ok = any(is_e(q, "idx") and any(is_e(z, "fld") and z[2] == "event_callback.evcb_pri" for z in walk(q[2])) for el in ins for q in walk(el.e))
    r.inst("drain", {"removes": len(rem), "inserts": len(ins), "every_removed_callback_is_reinserted": bool(ok), "into_queue_of_its_priority": idx_ok})
    if not ok or not idx_ok:
        r.bad("K5:event_queue_make_later_events_active:lost-callback", "%s:%d" % (g.file, g.line), g.name, "a callback taken off the later queue is not inserted into the active queue of its own priority on every path")
    # who removes from the later queue
    for h in P.all_fns:
        for el in h.elems():
            if el.mac and el.mac[-1] == "TAILQ_REMOVE" and el.e[0] == "asg" and any(is_e(q, "fld") and q[2] == BF + "active_later_queue" for q in walk(el.e)):
                ok = h.name in ("event_queue_make_later_events_active", "event_queue_remove_active_later")
                r.inst(("rm", h.name, el.n), {"fn": h.name, "site": el.where()}, nontrivial=False)
                if not ok:
                    r.bad("K2:%s:later-queue-removal" % h.name, el.where(), h.name, "removes from the later queue outside the owner functions")
    return r


def rule_ctl(P):
    r = Rule("C03-ctl", "K6/K3", "loopbreak/loopcontinue store their flag and notify a foreign loop; loopexit arms a once-timer whose callback sets gotterm; activation above the running priority sets continue", floor=8)
    for name, fld in (("event_base_loopbreak", "event_break"), ("event_base_loopcontinue", "event_continue")):
        f = P.fn(name)
        base = ["var", f.params[0][0], "param"]
        for foreign in (0, 1):
            env = {base[1]: 1, bkey(base, fld): 0, bkey(base, "th_base_lock"): 0, "evthread_id_fn_": 1, bkey(base, "running_loop"): 1, bkey(base, "th_owner_id"): 5}
            def hook(el, e_):
                if el.e[1][0] == "ptr":
                    return 6 if foreign else 5
                if callee_name(el.e) == "evthread_notify_base":
                    e_["#notified"] = 1
                    return 0
                return None
            for o in run_all(f, (f.entry, 0), env, lambda el: False, P, hook):
                if o.kind != "ret":
                    r.brk("%s: %s %s" % (name, o.kind, o.why))
                    continue
                v = o.env.get(bkey(base, fld))
                nt = o.env.get("#notified", 0)
                r.inst((name, foreign), {"fn": name, "from_other_thread": bool(foreign), fld: v, "notified": nt})
                if v != 1:
                    r.bad("K6:%s:flag-not-set" % name, "%s:%d" % (f.file, f.line), name, "%s is not set to 1 on every path" % fld)
                if foreign and not nt:
                    r.bad("K3:%s:no-wakeup" % name, "%s:%d" % (f.file, f.line), name, "called from another thread while the loop runs, the loop is not woken (the flag takes effect only after the wait ends by itself)")
    f = P.fn("event_base_loopexit")
    once = list(f.calls("event_base_once"))
    ok = False
    if len(once) == 1:
        a = once[0].e[2]
        cb = strip(a[3])
        if is_e(cb, "addr"):
            cb = strip(cb[1])
        ev_ok = is_e(strip(a[2]), "int") and strip(a[2])[1] == EV["TIMEOUT"]
        if is_e(cb, "fn") and P.has(cb[1]):
            g = P.fn(cb[1])
            ok = ev_ok and any(fields_of(lhs)[-1:] == [BF + "event_gotterm"] and is_e(strip(rhs), "int") and strip(rhs)[1] == 1 for el, lhs, op, rhs in g.stores()) \
                and eq(strip(a[4]), ["var", f.params[0][0], "param"]) and eq(strip(a[5]), ["var", f.params[1][0], "param"])
    r.inst("loopexit", {"once_timer_with_gotterm_callback": ok})
    if not ok:
        r.bad("K3:event_base_loopexit:not-a-gotterm-timer", "%s:%d" % (f.file, f.line), f.name, "loopexit is not a one-shot EV_TIMEOUT event on this base with the caller's delay whose callback sets event_gotterm")
    # who writes the loop-control flags
    OWN = {"event_gotterm": {"event_loopexit_cb", "event_base_loop"}, "event_break": {"event_base_loopbreak", "event_base_loop"},
           "event_continue": {"event_base_loopcontinue", "event_base_loop", "event_active_nolock_"}}
    for h in P.all_fns:
        for el, lhs, op, rhs in h.stores():
            fl = fields_of(lhs)[-1:]
            if fl and fl[0].startswith(BF) and fl[0][len(BF):] in OWN:
                nm = fl[0][len(BF):]
                r.inst(("w", h.name, el.n), {"fn": h.name, "site": el.where(), "flag": nm}, nontrivial=False)
                if h.name not in OWN[nm]:
                    r.bad("K2:%s:writes:%s" % (h.name, nm), el.where(), h.name, "%s is written outside its owner functions" % nm)
    # L6: activation above the running priority
    M = Machine(P)
    nbad = 0
    for fl in (L["INIT"], L["INIT"] | L["INSERTED"], L["INIT"] | L["ACTIVE_LATER"], L["INIT"] | L["ACTIVE"], L["INIT"] | L["FINALIZING"]):
        for pri, run in ((1, 2), (2, 2), (3, 2), (0, -1)):
            st = {"flags": fl, "res": 0, "events": EV["READ"], "count": 10, "active": 5, "pri": pri, "running_pri": run, "continue": 0}
            for o in M.evaluate("event_active_nolock_", st, {"res": EV["READ"], "ncalls": 1}):
                if o["unknown"]:
                    r.brk(o["unknown"])
                    continue
                newly = not (fl & (L["ACTIVE"] | L["FINALIZING"]))
                want = 1 if (newly and pri < run) else 0
                got = o["st"].get("continue")
                r.inst(("cont", fl, pri, run, o["calls"]), {"flags": hex(fl), "priority": pri, "running_priority": run, "event_continue": got})
                if got != want and nbad < 2:
                    nbad += 1
                    r.bad("K6:event_active_nolock_:continue", "%s:%d" % (P.fn("event_active_nolock_").file, P.fn("event_active_nolock_").line), "event_active_nolock_",
                          "activating an event of priority %d while priority %d runs leaves event_continue=%s (documented %d): the lower-priority queue is not abandoned for it on some path (e.g. activation from another thread)" % (pri, run, got, want))
    return r


def rule_internal_prio(P):
    """event_process_active goes on to lower-priority queues in the same pass when a queue held only internal callbacks (count 0).  That is sound only because internal events sit at
    priority 0 - nothing user-visible is above them.  Every event that is marked EVLIST_INTERNAL is therefore given priority 0 where it is set up."""
    r = Rule("C03-internal-prio", "K1", "every event marked EVLIST_INTERNAL is given priority 0 in the function that sets it up", floor=3)
    for f in P.all_fns:
        for el, lhs, op, rhs in f.stores():
            l = strip(lhs)
            if not (is_e(l, "fld") and l[2] in ("event_callback.evcb_flags", "event.ev_flags") and op in ("|=", "=")):
                continue
            if not any(is_e(q, "int") and len(q) > 2 and q[2] == "EVLIST_INTERNAL" for q in walk(rhs)):
                continue
            # the event the flag belongs to: strip the ev_evcallback / flags fields
            evx = l[1]
            while is_e(strip(evx), "fld") and strip(evx)[2] in ("event.ev_evcallback",):
                evx = strip(evx)[1]
            evx = strip(evx)
            ok = False
            for c in f.calls("event_priority_set"):
                a0 = strip(c.e[2][0])
                if is_e(a0, "addr"):
                    a0 = strip(a0[1])
                p0 = strip(c.e[2][1])
                if eq(a0, evx) and is_e(p0, "int") and p0[1] == 0:
                    ok = True
            if not ok:
                # or a direct store of priority 0
                for e2, l2, o2, r2 in f.stores():
                    l2 = strip(l2)
                    if is_e(l2, "fld") and l2[2].endswith("evcb_pri") and o2 == "=" and is_e(strip(r2), "int") and strip(r2)[1] == 0 and root_var(l2) == root_var(evx):
                        ok = True
            r.inst((f.name, el.n), {"fn": f.name, "site": el.where(), "event": show(evx), "priority_0_set": ok})
            if not ok:
                r.bad("K1:%s:internal-event-not-priority-0" % f.name, el.where(), f.name,
                      "%s is marked internal but not given priority 0: its callback would run in a middle queue, and a pass that finds only internal callbacks there goes on to lower priorities although the callback has just activated a higher-priority event" % show(evx))
    return r


def run(ctx, config):
    P = ctx.prog(UNITS, config)
    return [rule_loop(P), rule_single(P), rule_prio(P), rule_later(P), rule_ctl(P), rule_internal_prio(P)]
