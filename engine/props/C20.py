"""C20 — bufferevent timeouts: direction consistency of timeout callbacks, enable/disable slots and timer arming (K6 evaluation, K7 twins)."""
from ..core import Rule
from ..prog import *
from ..facts import AnalysisBroken
from ..interp import normx, nkey, run_all, force_conds

UNITS = ["bufferevent", "bufferevent_sock", "bufferevent_pair", "bufferevent_filter", "bufferevent_ssl"]
LEVEL = "other"
CONFIGS = ["build", "assert"]
EXPLANATION = (
    "D1: every function stored in a bufferevent_ops `disable` slot is evaluated on every (events argument, enabled word) combination: it disarms the timer/event of "
    "exactly the directions named by its argument, independently of bev->enabled (the suspend paths call it with the direction still enabled), the socket variant "
    "keeping the write event while connecting; every `enable` slot arms only the directions named by its argument. D2: the generic timeout callbacks disable their "
    "own direction and report BEV_EVENT_TIMEOUT with their own direction bit (twin comparison), and the EV_TIMEOUT branches of the socket read/write callbacks do "
    "the same. D3: bufferevent_generic_adj_timeouts_ on every (enabled, suspended, timer set, output pending) combination arms the read timer iff reading is "
    "enabled, not suspended and a read timeout is set, the write timer iff the same for writing and output is pending, else disarms; failures propagate. "
    "D4: bufferevent_set_timeouts stores each timeout (or clears it for NULL) and calls the adj_timeouts slot. Declined: timing itself, reset-on-progress over "
    "whole transfer histories.")
ASSUMPTIONS = ["event_add/event_del on &bev->ev_read / &bev->ev_write are the only ways these functions (dis)arm the generic timers"]

R_, W_ = 0x02, 0x04
TIMEOUT, READING, WRITING = 0x40, 0x01, 0x02


def which_ev(a):
    a = strip(a)
    if is_e(a, "addr"):
        a = strip(a[1])
    fl = fields_of(a)
    if fl and fl[-1] == "bufferevent.ev_read":
        return "read"
    if fl and fl[-1] == "bufferevent.ev_write":
        return "write"
    return None


def timer_hook(more=None):
    def hook(el, e_):
        n = callee_name(el.e)
        if n in ("event_del", "event_del_nolock_", "event_del_noblock"):
            w = which_ev(el.e[2][0])
            if w:
                e_["#ops"] = e_.get("#ops", ()) + (("del", w),)
                return 0
        if n in ("event_add", "bufferevent_add_event_"):
            w = which_ev(el.e[2][0])
            if w:
                e_["#ops"] = e_.get("#ops", ()) + (("add", w),)
                return e_.get("#addresult", 0)
        if more:
            return more(el, e_)
        return None
    return hook


def rule_slots(P):
    r = Rule("C20-slots", "K6/K7", "disable/enable slots act on exactly the directions of their argument, independent of bev->enabled", floor=40)
    slots = P.slots()
    dis = sorted(slots.get("bufferevent_ops.disable", ()))
    ena = sorted(slots.get("bufferevent_ops.enable", ()))
    if len(dis) < 4:
        r.brk("disable slot targets not found: %s" % dis)
        return r
    for name in dis:
        if not P.has(name):
            continue
        f = P.fn(name)
        bev = ["var", f.params[0][0], "param"]
        evp = f.params[1][0]
        ken = nkey(["fld", bev, "bufferevent.enabled", "->"])
        nb = 0
        for events in (0, R_, W_, R_ | W_):
            for enabled in (0, R_, W_, R_ | W_):
                for connecting in ((0, 1) if "socket" in name else (0,)):
                    env = {bev[1]: 1, evp: events, ken: enabled, "bufev_p": 1, "bev_ssl": 1, "bevf": 1,
                           nkey(["fld", ["var", "bufev_p", "local"], "bufferevent_private.connecting", "->"]): connecting,
                           nkey(["fld", ["var", "bev_ssl", "local"], "bufferevent_ssl.underlying", "->"]): 1}
                    def more(el, e_):
                        n = callee_name(el.e)
                        if n in ("bufferevent_ssl_stop_reading", "bufferevent_ssl_stop_writing", "bufferevent_suspend_read_", "upcast", "bufferevent_ssl_upcast"):
                            return 1
                        return None
                    for o in run_all(f, (f.entry, 0), env, lambda el: False, P, timer_hook(more), max_steps=600):
                        if o.kind == "exit" and o.why == "noreturn":
                            continue
                        if o.kind == "unknown":
                            r.brk("%s: %s" % (name, o.why))
                            break
                        ops = set(o.env.get("#ops", ()))
                        want = set()
                        if events & R_:
                            want.add(("del", "read"))
                        if events & W_ and not connecting:
                            want.add(("del", "write"))
                        r.inst((name, events, enabled, connecting), {"fn": name, "events_arg": events, "bev_enabled": enabled, "connecting": connecting, "timer_ops": sorted(ops)})
                        if ops != want and nb < 3:
                            nb += 1
                            r.bad("K6:%s:disable-directions" % name, "%s:%d" % (f.file, f.line), name,
                                  "disable(events=%#x) with bev->enabled=%#x%s: timer operations %s, documented %s (the suspend paths call this slot while the direction is still enabled, "
                                  "so the decision must come from the argument)" % (events, enabled, " while connecting" if connecting else "", sorted(ops), sorted(want)))
    for name in ena:
        if not P.has(name):
            continue
        f = P.fn(name)
        evp = f.params[1][0]
        # structural: every add of ev_read is guarded by the READ bit of the argument, every add of ev_write by the WRITE bit
        for el in f.calls():
            n = callee_name(el.e)
            if n in ("event_add", "bufferevent_add_event_"):
                w = which_ev(el.e[2][0])
                if not w:
                    continue
                bit = R_ if w == "read" else W_
                # the guard may be a dominating if or the left operand of && in the same condition
                ok = False
                for c, t, b in f.guards_at(el.bid):
                    c2, t2 = negate_truth(c, t)
                    if t2 and any(is_e(q, "bin") and q[1] == "&" and is_e(strip(q[2]), "var") and strip(q[2])[1] == evp and is_e(strip(q[3]), "int") and strip(q[3])[1] & bit for q in walk(c2)):
                        ok = True
                r.inst((name, el.n), {"fn": name, "site": el.where(), "arms": w, "guarded_by_argument_bit": ok})
                if not ok:
                    r.bad("K4:%s:enable-arms-unrequested:%s" % (name, w), el.where(), name, "the %s timer/event is armed without testing the %s bit of the events argument" % (w, "EV_READ" if w == "read" else "EV_WRITE"))
    return r


def rule_callbacks(P):
    r = Rule("C20-callbacks", "K7/K6", "timeout callbacks disable and report their own direction", floor=4)
    for name, bit, dirbit in (("bufferevent_generic_read_timeout_cb", R_, READING), ("bufferevent_generic_write_timeout_cb", W_, WRITING)):
        f = P.fn(name)
        dis = list(f.calls("bufferevent_disable"))
        rep = list(f.calls("bufferevent_run_eventcb_"))
        def const(e):
            try:
                v = evalx(e, {}, P)
            except Exception:
                v = None
            return v if isinstance(v, int) else None
        ok = len(dis) == 1 and len(rep) == 1 and const(dis[0].e[2][1]) == bit and \
            const(rep[0].e[2][1]) == (TIMEOUT | dirbit) and f.path_avoiding(dis[0].pos(), lambda x: x is rep[0], lambda x: False) is not None
        r.inst(name, {"fn": name, "disables": show(dis[0].e[2][1]) if dis else None, "reports": show(rep[0].e[2][1]) if rep else None})
        if not ok:
            r.bad("K7:%s:direction" % name, "%s:%d" % (f.file, f.line), name, "the %s timeout callback does not disable %s and then report TIMEOUT|%s" % ("read" if bit == R_ else "write", "EV_READ" if bit == R_ else "EV_WRITE", "READING" if bit == R_ else "WRITING"))
    # socket callbacks' EV_TIMEOUT branches
    for rd in (True, False):
        cands = [n for n in P.registered("event_assign", 4) if P.has(n) and P.fn(n).file == "bufferevent_sock.c" and any(True for _ in P.fn(n).calls("evbuffer_read" if rd else "evbuffer_write_atmost"))]
        if len(cands) != 1:
            r.brk("socket %s callback not identified" % ("read" if rd else "write"))
            continue
        f = P.fn(cands[0])
        env = {"bufev": 1, "bufev_p": 1, f.params[1][0]: 0x01}     # EV_TIMEOUT
        def hook(el, e_):
            n = callee_name(el.e)
            if n == "bufferevent_disable":
                try:
                    e_["#dis"] = evalx(normx(el.e[2][1]), e_, P)
                except EvalError:
                    e_["#dis"] = "?"
                return 0
            if n == "bufferevent_run_eventcb_":
                try:
                    e_["#rep"] = evalx(normx(el.e[2][1]), e_, P)
                except EvalError:
                    e_["#rep"] = "?"
                return 0
            if n in ("evbuffer_read", "evbuffer_write_atmost"):
                e_["#io"] = 1
                return 1
            return None
        for o in run_all(f, (f.entry, 0), env, lambda el: False, P, hook, max_steps=900):
            if o.kind == "exit" and o.why == "noreturn":
                continue
            if o.kind == "unknown":
                r.brk("%s: %s" % (f.name, o.why))
                break
            d, rp, io = o.env.get("#dis"), o.env.get("#rep"), o.env.get("#io")
            want = (R_ if rd else W_, TIMEOUT | (READING if rd else WRITING))
            r.inst((f.name, "timeout"), {"fn": f.name, "event": "EV_TIMEOUT", "disables": d, "reports": rp, "does_io": bool(io)})
            if (d, rp) != want or io:
                r.bad("K6:%s:timeout-branch" % f.name, "%s:%d" % (f.file, f.line), f.name, "on EV_TIMEOUT alone: disables %s, reports %s, I/O attempted=%s; documented disable %#x, report %#x, no I/O" % (d, rp, bool(io), want[0], want[1]))
    return r


def rule_adj(P):
    r = Rule("C20-adj", "K6", "bufferevent_generic_adj_timeouts_ arms/disarms each timer by enabled, suspended, timeout set (and pending output for write)", floor=60)
    f = P.fn("bufferevent_generic_adj_timeouts_")
    bev = ["var", f.params[0][0], "param"]
    ken = nkey(["fld", bev, "bufferevent.enabled", "->"])
    T = lambda d, w: nkey(["fld", ["fld", bev, "bufferevent.timeout_" + d, "->"], "timeval." + w, "."])
    S = lambda d: nkey(["fld", ["var", "bev_p", "local"], "bufferevent_private.%s_suspended" % d, "->"])
    nb = 0
    for enabled in (0, R_, W_, R_ | W_):
        for rs in (0, 1):
            for ws in (0, 1):
                for rt in (0, 1):
                    for wt in (0, 1):
                        for out in (0, 5):
                            for fail in (0, 1):
                                env = {bev[1]: 1, "bev_p": 1, ken: enabled, S("read"): rs, S("write"): ws, T("read", "tv_sec"): rt, T("read", "tv_usec"): 0, T("write", "tv_sec"): 0,
                                       T("write", "tv_usec"): wt, "#addresult": -1 if fail else 0}
                                def more(el, e_):
                                    if callee_name(el.e) == "evbuffer_get_length":
                                        return out
                                    return None
                                for o in run_all(f, (f.entry, 0), env, lambda el: False, P, timer_hook(more)):
                                    if o.kind != "ret":
                                        r.brk("adj_timeouts: %s %s" % (o.kind, o.why))
                                        return r
                                    ops = list(o.env.get("#ops", ()))
                                    wr = ("add", "read") if (enabled & R_ and not rs and rt) else ("del", "read")
                                    ww = ("add", "write") if (enabled & W_ and not ws and wt and out) else ("del", "write")
                                    try:
                                        ret = evalx(normx(o.at.e[1]), o.env, P)
                                    except EvalError:
                                        ret = None
                                    wret = -1 if (fail and "add" in (wr[0], ww[0])) else 0
                                    r.inst((enabled, rs, ws, rt, wt, out, fail), {"enabled": enabled, "read_suspended": rs, "write_suspended": ws, "read_timeout_set": rt, "write_timeout_set": wt, "output": out, "ops": ops, "ret": ret})
                                    if (ops != [wr, ww] or ret != wret) and nb < 3:
                                        nb += 1
                                        r.bad("K6:bufferevent_generic_adj_timeouts_:decision", "%s:%d" % (f.file, f.line), f.name,
                                              "enabled=%#x suspended=(%d,%d) timeouts set=(%d,%d) output=%d add fails=%d: %s returns %s; documented %s returns %d" % (enabled, rs, ws, rt, wt, out, fail, ops, ret, [wr, ww], wret))
    # set_timeouts
    g = P.fn("bufferevent_set_timeouts")
    bv = ["var", g.params[0][0], "param"]
    Tg = lambda d, w: nkey(["fld", ["fld", bv, "bufferevent.timeout_" + d, "->"], "timeval." + w, "."])
    for rnn in (0, 1):
        for wnn in (0, 1):
            env = {bv[1]: 1, g.params[1][0]: rnn, g.params[2][0]: wnn, Tg("read", "tv_sec"): 9, Tg("read", "tv_usec"): 9, Tg("write", "tv_sec"): 9, Tg("write", "tv_usec"): 9,
                   nkey(["fld", ["deref", ["var", g.params[1][0], "param"]], "timeval.tv_sec", "."]): 3, nkey(["fld", ["var", g.params[1][0], "param"], "timeval.tv_sec", "->"]): 3,
                   nkey(["fld", ["var", g.params[1][0], "param"], "timeval.tv_usec", "->"]): 4, nkey(["fld", ["var", g.params[2][0], "param"], "timeval.tv_sec", "->"]): 5,
                   nkey(["fld", ["var", g.params[2][0], "param"], "timeval.tv_usec", "->"]): 6,
                   nkey(["fld", ["deref", ["var", g.params[1][0], "param"]], "timeval.tv_usec", "."]): 4,
                   nkey(["fld", ["deref", ["var", g.params[2][0], "param"]], "timeval.tv_sec", "."]): 5, nkey(["fld", ["deref", ["var", g.params[2][0], "param"]], "timeval.tv_usec", "."]): 6}
            env.update(force_conds(g, lambda b: b.term.get("mac") and any(m in ("EVLOCK_LOCK", "EVLOCK_UNLOCK") for m in b.term["mac"]) and b.term.get("k") == "if", 0))
            env[nkey(["fld", ["fld", bv, "bufferevent.be_ops", "->"], "bufferevent_ops.adj_timeouts", "->"])] = 1
            def hook(el, e_):
                if callee_slot(el.e) == "bufferevent_ops.adj_timeouts":
                    e_["#adj"] = e_.get("#adj", 0) + 1
                    return 0
                return None
            for o in run_all(g, (g.entry, 0), env, lambda el: False, P, hook, max_steps=600):
                if o.kind == "exit" and o.why == "noreturn":
                    continue
                if o.kind == "unknown":
                    r.brk("bufferevent_set_timeouts: %s" % o.why)
                    break
                got = (o.env.get(Tg("read", "tv_sec")), o.env.get(Tg("read", "tv_usec")), o.env.get(Tg("write", "tv_sec")), o.env.get(Tg("write", "tv_usec")))
                want = ((3, 4) if rnn else (0, 0)) + ((5, 6) if wnn else (0, 0))
                adj = o.env.get("#adj", 0)
                r.inst(("set", rnn, wnn), {"read_tv": bool(rnn), "write_tv": bool(wnn), "stored": list(got), "adj_called": adj})
                if got != want or adj != 1:
                    r.bad("K6:bufferevent_set_timeouts:store", "%s:%d" % (g.file, g.line), g.name, "read tv %s, write tv %s: stores %s (documented %s), adj_timeouts calls %d" % (bool(rnn), bool(wnn), got, want, adj))
    return r


def rule_outbuf(P):
    r = Rule("C20-outbuf", "K6", "appending output starts the write event only when it is not already pending (a running write timeout is not restarted without progress)", floor=12)
    f = P.fn("bufferevent_socket_outbuf_cb")
    ci = ["var", f.params[1][0], "param"]
    nb = 0
    for nadd in (0, 10):
        for enabled in (0, W_, R_ | W_):
            for pending in (0, 1):
                for susp in (0, 1):
                    env = {f.params[0][0]: 1, ci[1]: 1, f.params[2][0]: 1, "bufev": 1, "bufev_p": 1, nkey(["fld", ci, "evbuffer_cb_info.n_added", "->"]): nadd,
                           nkey(["fld", ["var", "bufev", "local"], "bufferevent.enabled", "->"]): enabled,
                           nkey(["fld", ["var", "bufev_p", "local"], "bufferevent_private.write_suspended", "->"]): susp}
                    def more(el, e_):
                        if callee_name(el.e) == "event_pending":
                            return pending
                        return None
                    for o in run_all(f, (f.entry, 0), env, lambda el: False, P, timer_hook(more)):
                        if o.kind == "unknown":
                            r.brk("bufferevent_socket_outbuf_cb: %s" % o.why)
                            return r
                        ops = list(o.env.get("#ops", ()))
                        want = [("add", "write")] if (nadd and enabled & W_ and not pending and not susp) else []
                        r.inst((nadd, enabled, pending, susp), {"n_added": nadd, "enabled": enabled, "write_event_pending": pending, "write_suspended": susp, "timer_ops": ops})
                        if ops != want and nb < 3:
                            nb += 1
                            r.bad("K6:bufferevent_socket_outbuf_cb:rearm", "%s:%d" % (f.file, f.line), f.name,
                                  "n_added=%d enabled=%#x pending=%d suspended=%d: %s, documented %s (re-adding a pending event with its timeout pushes the write deadline forward although nothing was written)" % (nadd, enabled, pending, susp, ops, want))
    return r


def rule_write_event(P):
    """the socket write callback keeps ev_write added while output is left: ev_write carries the write timeout, so removing it with pending output means the timeout can never be reported.
    The decision table is C17's (engine/props/C17.py: sock_rule for bufferevent_writecb)."""
    from . import C17
    C = C17.consts(P)
    r = C17.sock_rule(P, C, "bufferevent_writecb", "write")
    r.id = "C20-write-event"
    return r


def run(ctx, config):
    P = ctx.prog(UNITS, config)
    from . import C19
    # a direction that is still suspended for another reason (or disabled) gets its event AND its timeout back when the enable slot is called too early: C19's who-may-re-arm rule
    return [rule_slots(P), rule_callbacks(P), rule_adj(P), rule_outbuf(P), rule_write_event(P), C19.rule_rearm(ctx.prog(C19.REARM_UNITS, config), "C20-rearm")]
