"""C37 — the DNS server parses any incoming packet safely and faithfully: bounds, dead guards, NOTIMPL gating, lengths, cleanup."""
from ..core import Rule
from ..prog import *
from ..facts import AnalysisBroken
from .. import dnsparse as D
from ..interp import normx, nkey, run_all

UNITS = ["evdns"]
LEVEL = "other"
EXPLANATION = ("K4: in request_parse and name_parse every read of the packet is dominated by a bound test over the same index and size (GET8/16/32 "
               "expansions and explicit sites) and name_parse's output writes are capacity-checked. K4 known-bits: a mask test whose every reaching "
               "definition masks those bits away is reported as dead; K3: the NOTIMPL answer is guarded by the opcode bits of the *received* flags and the "
               "user callback is dominated by the false edge of that very test. K8: the length handed to request_parse is the receive call's result (UDP) "
               "resp. equals the size of the freshly allocated TCP message buffer. K11/K12: everything allocated while parsing is tested before use and is "
               "released on every failure exit (or handed to the responder). Decides parser safety and gating on all paths; the faithfulness of the decoded "
               "questions is covered only through the bounds/indices, not compared with a reference decoder.")
ASSUMPTIONS = []
CONFIGS = ["build", "assert"]
OP_MASK = 0x7800


def rule_reply_items(P):
    """request_parse's failure exit frees the questions and the request - nothing else.  A reply item added while parsing (the OPT pseudo-record announcing the client's reply size) is owned by
    the request and would be lost there: after such an addition no path may reach the bare free of the request."""
    r = Rule("C37-reply-items", "K11", "request_parse: once a reply item has been attached to the request, no path reaches the failure exit that frees the request without its reply items", floor=2)
    f = P.fn("request_parse")
    adds = [el for el in f.calls() if callee_name(el.e) in ("evdns_server_request_add_reply", "evdns_server_request_add_a_reply", "evdns_server_request_add_aaaa_reply",
                                                             "evdns_server_request_add_ptr_reply", "evdns_server_request_add_cname_reply")]
    bare = [el for el in f.calls("event_mm_free_") if is_e(strip(el.e[2][0]), "var") and strip(el.e[2][0])[1] == "server_req"]
    releases = ("server_request_free", "server_request_free_answers", "evdns_server_request_drop", "evdns_server_request_respond")
    r.inst("exit", {"fn": f.name, "bare_free_of_request": [x.where() for x in bare]})
    if not bare:
        r.brk("request_parse: the failure exit (free of server_req) was not found")
        return r
    for el in adds:
        w = f.path_avoiding(el.pos(), lambda x: any(x is b for b in bare), lambda x: x.e[0] == "call" and callee_name(x.e) in releases)
        r.inst(("add", el.n), {"site": el.where(), "adds": callee_name(el.e), "failure_exit_reachable_afterwards": w.where() if w is not None else None})
        if w is not None:
            r.bad("K11:request_parse:reply-item-lost-on-failure", el.where(), f.name,
                  "after %s attached a reply item to the request, parsing can still fail and reach the free of the request at line %d, which releases the questions and the request but not the "
                  "reply items: every such packet leaks them (a peer can repeat it without limit)" % (callee_name(el.e), w.line))
    if not adds:
        r.brk("request_parse: no reply item is added while parsing (OPT handling not found)")
    return r


def run(ctx, config):
    P = ctx.prog(UNITS, config)
    rules = []
    rules.append(D.rule_bounds(P, ["name_parse", "request_parse"], "C37-bounds", floor=15))
    rules.append(D.rule_output_bounds(P, "name_parse", "C37-name-out"))
    rules.append(D.rule_dead_guards(P, ["request_parse", "reply_parse"], "C37-dead-guard"))
    rules.append(D.rule_alloc_use(P, ["request_parse"], "C37-alloc"))

    f = P.fn("request_parse")
    r = Rule("C37-notimpl", "K3/K4", "non-standard opcodes are answered with NOTIMPL and never reach the user callback", floor=3)
    resp = [el for el in f.calls("evdns_server_request_respond") if is_e(strip(el.e[2][1]), "int") and "NOTIMPL" in (strip(el.e[2][1])[2] if len(strip(el.e[2][1])) > 2 else "")]
    ucb = [el for el in f.calls(slot="evdns_server_port.user_callback")]
    optests = [b for b in f.branch_blocks() if is_e(strip(negate_truth(b.term["cond"], True)[0]), "bin") and strip(negate_truth(b.term["cond"], True)[0])[1] == "&"
               and is_e(strip(strip(negate_truth(b.term["cond"], True)[0])[3]), "int") and strip(strip(negate_truth(b.term["cond"], True)[0])[3])[1] == OP_MASK]
    r.inst("sites", {"notimpl_responses": [e.where() for e in resp], "user_callback": [e.where() for e in ucb], "opcode_tests": ["%s:%d" % (f.file, b.term["loc"][0]) for b in optests]})
    if len(resp) != 1 or len(ucb) != 1 or len(optests) != 1:
        r.brk("expected one NOTIMPL response, one user callback invocation and one opcode test")
    else:
        tb = optests[0]
        var = strip(strip(negate_truth(tb.term["cond"], True)[0])[2])
        gs = [negate_truth(c, t) for c, t, _ in f.guards_at(resp[0].bid)]
        ok1 = any(t and is_e(strip(c), "bin") and strip(c)[1] == "&" and is_e(strip(strip(c)[3]), "int") and strip(strip(c)[3])[1] == OP_MASK for c, t in gs)
        gs2 = [negate_truth(c, t) for c, t, _ in f.guards_at(ucb[0].bid)]
        ok2 = any((not t) and is_e(strip(c), "bin") and strip(c)[1] == "&" and is_e(strip(strip(c)[3]), "int") and strip(strip(c)[3])[1] == OP_MASK for c, t in gs2)
        r.inst("gating", {"notimpl_under_opcode_bits": ok1, "callback_under_no_opcode_bits": ok2})
        if not ok1:
            r.bad("K3:request_parse:notimpl-not-gated", resp[0].where(), f.name, "the NOTIMPL response is not guarded by the opcode bits")
        if not ok2:
            r.bad("K3:request_parse:callback-not-gated", ucb[0].where(), f.name, "the user callback can run for a query whose opcode bits are set")
        # the tested variable still carries the received bits: its reaching definitions are the GET16 read (t_ -> ntohs) only
        anchor = f.blocks[tb.id].elems[-1] if f.blocks[tb.id].elems else None
        defs = f.var_stores(var[1]) if is_e(var, "var") else []
        live = []
        for d, rhs in defs:
            if tb.id in f.reach_blocks(d.bid):
                live.append((d, rhs))
        raw = [d for d, rhs in live if d.mac and "GET16" in d.mac]
        masked = [d for d, rhs in live if d.e[0] == "asg" and (d.e[1] == "&=" or (d.e[1] == "=" and is_e(strip(d.e[3]), "bin") and strip(d.e[3])[1] == "&")) and
                  is_e(strip(d.e[3] if d.e[1] == "&=" else strip(d.e[3])[3]), "int") and not (strip(d.e[3] if d.e[1] == "&=" else strip(d.e[3])[3])[1] & OP_MASK)]
        r.inst("provenance", {"tested": show(var), "wire_definitions": [d.where() for d in raw], "maskings_before_test": [show(d.e) for d in masked]})
        if not raw or masked:
            r.bad("K4:request_parse:opcode-test-not-on-received-flags", "%s:%d" % (f.file, tb.term["loc"][0]), f.name,
                  "the opcode test reads %s after `%s`: the received opcode bits are gone" % (show(var), "; ".join(show(d.e) for d in masked)))
    rules.append(r)

    r2 = Rule("C37-length", "K8", "the length given to request_parse is the number of bytes actually received into the buffer it is given", floor=2)
    g = P.fn("server_udp_port_read")
    for c in g.calls("request_parse"):
        lenarg = strip(c.e[2][1])
        buf = strip(c.e[2][0])
        ok = False
        if is_e(lenarg, "var"):
            defs = g.reaching_defs(lenarg[1], c)
            ok = bool(defs) and all(is_e(strip(rhs), "call") and callee_name(strip(rhs)) in ("recvfrom", "recv") and eq(strip(strip(strip(rhs)[2][1])), buf) and
                                    any(is_e(q, "sizeof") or is_e(q, "int") for q in walk(strip(rhs)[2][2])) for d, rhs in defs)
            gs = [negate_truth(cc, t) for cc, t, _ in g.guards_at(c.bid)]
            ok = ok and any((not t) and is_e(strip(cc), "bin") and strip(cc)[1] == "<" and eq(strip(cc)[2], lenarg) for cc, t in gs)
        r2.inst(("udp", c.n), {"site": c.where(), "call": show(c.e)[:70], "length_is_recv_result_nonnegative": ok})
        if not ok:
            r2.bad("K8:server_udp_port_read:length-not-recv-result", c.where(), g.name, "request_parse is not given exactly the non-negative result of recvfrom on the same buffer")
    g = P.fn("tcp_read_message")
    allocs = [el for el in g.calls() if callee_name(el.e) in ("event_mm_malloc_", "malloc")]
    reads = [el for el in g.calls("bufferevent_read") if eq(strip(el.e[2][1]), ["var", "packet", "local"])]
    outs = [(el, rhs) for el, lhs, op, rhs in g.stores() if is_e(strip(lhs), "deref") and eq(strip(strip(lhs)[1]), ["var", g.params[2][0], "param"])]
    ok = False
    if len(allocs) == 1 and len(reads) == 1 and len(outs) == 1:
        size = strip(allocs[0].e[2][0])
        same = eq(size, strip(reads[0].e[2][2]))
        rv = strip(outs[0][1])
        gs = [negate_truth(cc, t) for cc, t, _ in g.guards_at(outs[0][0].bid)]
        eqsize = any((not t) and is_e(strip(cc), "bin") and strip(cc)[1] == "!=" and eq(strip(cc)[2], rv) and eq(strip(cc)[3], size) for cc, t in gs)
        ok = same and eqsize
        r2.inst("tcp", {"alloc": show(allocs[0].e), "read": show(reads[0].e)[:70], "same_size": same, "msg_len_equals_size": eqsize})
    if not ok:
        r2.bad("K8:tcp_read_message:length-vs-buffer", "%s:%d" % (g.file, g.line), g.name, "the reported message length is not tied to the allocated buffer size")
    rules.append(r2)

    # ---- the question array is allocated for exactly as many entries as the loop may store
    r2b = Rule("C37-array", "K4", "heap arrays filled in a counted loop are allocated with that loop's bound", floor=1)
    arrays = {}
    for el, lhs, op, rhs in f.stores():
        l, rr = strip(lhs), strip(rhs)
        if is_e(l, "fld") and is_e(rr, "call") and callee_name(rr) in ("event_mm_calloc_", "calloc") and len(rr[2]) == 2:
            arrays[l[2]] = (el, rr[2])
    for el, lhs, op, rhs in f.stores():
        l = strip(lhs)
        if is_e(l, "idx") and is_e(strip(l[1]), "fld") and strip(l[1])[2] in arrays:
            fld = strip(l[1])[2]
            ael, args = arrays[fld]
            hdrs = [b for b in f.branch_blocks() if b.term["k"] in ("for", "while") and el.bid in f.natural_loop(b.id)]
            ok = False
            bound = None
            for b in hdrs:
                c = strip(b.term["cond"])
                if is_e(c, "bin") and c[1] == "<":
                    bound = strip(c[3])
                    if any(eq(strip(a), bound) for a in args):
                        ok = True
            # the index only counts stored elements: it is incremented once per store
            ix = strip(l[2])
            once = is_e(ix, "incdec") and ix[1] == "++"
            r2b.inst((fld, el.n), {"site": el.where(), "store": show(el.e)[:60], "allocated": show(ael.e)[:80], "loop_bound": show(bound) if bound else None,
                                   "allocation_count_is_loop_bound": ok, "index_incremented_per_store": once})
            if not ok:
                r2b.bad("K4:request_parse:%s:allocation-smaller-than-loop" % fld, el.where(), f.name,
                        "%s is allocated with %s elements but filled in a loop bounded by %s: the loop can store past the allocation"
                        % (fld, " x ".join(show(a) for a in args), show(bound) if bound else "?"))
    rules.append(r2b)

    r3 = Rule("C37-cleanup", "K11", "request_parse releases what it allocated on every failure exit (or hands it to the responder)", floor=1)
    alloc = [el for el in f.calls() if callee_name(el.e) in ("event_mm_malloc_", "malloc") and any(
        nx.e[0] == "asg" and eq(strip(nx.e[2]), ["var", "server_req", "local"]) for nx in f.blocks[el.bid].elems[el.idx + 1:el.idx + 2])]
    if len(alloc) != 1:
        r3.brk("server_req allocation not found")
    else:
        def settles(x):
            if x.e[0] != "call":
                return False
            if callee_name(x.e) in ("event_mm_free_", "free") and eq(strip(x.e[2][0]), ["var", "server_req", "local"]):
                return True
            if callee_name(x.e) == "evdns_server_request_respond":
                return True
            if callee_slot(x.e) == "evdns_server_port.user_callback":
                return True
            return False
        SR = ["var", "server_req", "local"]
        def null_edge(blk, succ, lab):
            if lab in ("T", "F") and blk.term and "cond" in blk.term:
                c, t = negate_truth(blk.term["cond"], lab == "T")
                return eq(strip(c), SR) and not t
            return False
        w = f.exit_reachable_avoiding(alloc[0].pos(), settles, skip_edge=null_edge)
        r3.inst("server_req", {"alloc": alloc[0].where(), "released_or_handed_over_on_every_exit": w is None, "witness": getattr(w, "line", None)})
        if w is not None:
            r3.bad("K11:request_parse:server_req:leak", alloc[0].where(), f.name, "server_req is neither freed nor handed to the responder/user on the path returning at line %s" % getattr(w, "line", "?"))
    rules.append(r3)
    rules.append(rule_tcpframe(P))
    rules.append(rule_reply_items(P))
    return rules



def rule_tcpframe(P):
    """DNS over TCP: tcp_read_message evaluated on an abstract input buffer, driven the way its two callers drive it (call until no complete message is left,
    reset awaiting_packet_size after each message), for a stream of three messages cut at every byte position and fed byte by byte"""
    r = Rule("C37-tcpframe", "K6", "TCP framing: the messages delivered are exactly the length-prefixed messages of the stream, for every segmentation", floor=300)
    f = P.fn("tcp_read_message")
    conn = f.params[0][0]
    msgs = [bytes(range(1, 6)), bytes((i * 7 + 3) & 0xff for i in range(300)), bytes([9, 8, 7])]
    stream = b"".join(len(m).to_bytes(2, "big") + m for m in msgs)
    CELL = lambda fl: ("@", "conn", "tcp_connection.%s" % fl)
    enumv = {}
    for e in P.enums.values():
        for n, v in e["items"]:
            enumv[n] = v

    def call(state, buf):
        """one call of tcp_read_message; -> (ret, message or None, new awaiting value, new buf) or ('unknown', why)"""
        env = {"#typed": 1, conn: PPtr("conn"), f.params[1][0]: PRef(None, "#msg"), f.params[2][0]: PRef(None, "#msglen"), "#msg": 0, "#msglen": 0, "#buf": buf, "#pkt": None,
               CELL("bev"): 55, CELL("awaiting_packet_size"): state, CELL("state"): enumv.get("TS_CONNECTED", 1), "event_debug_logging_mask_": 0}

        def hook(el, e_):
            n = callee_name(el.e)
            a = el.e[2]
            try:
                if n == "bufferevent_get_input":
                    return 77
                if n == "evbuffer_get_length":
                    return len(e_["#buf"])
                if n == "bufferevent_read":
                    want = evalx(normx(a[2]), e_, P)
                    k = min(want, len(e_["#buf"]))
                    data = e_["#buf"][:k]
                    e_["#buf"] = e_["#buf"][k:]
                    d = strip(a[1])
                    if is_e(d, "addr"):
                        tgt = strip(d[1])
                        hc = heap_cell(tgt, e_, P)
                        kk = hc if hc is not None else (tgt[1] if is_e(tgt, "var") else None)
                        if kk is None:
                            return "impure"
                        old = e_.get(kk, 0) or 0
                        bs = list(old.to_bytes(2, "little"))
                        for j in range(k):
                            bs[j] = data[j]
                        e_[kk] = int.from_bytes(bytes(bs), "little")
                    else:
                        p = evalx(normx(d), e_, P)
                        if not isinstance(p, PPtr):
                            return "impure"
                        e_["#pkt"] = data
                    return k
                if n in ("ntohs", "__bswap_16", "htons"):
                    v = evalx(normx(a[0]), e_, P)
                    return ((v & 0xff) << 8) | ((v >> 8) & 0xff)
                if n == "event_mm_malloc_":
                    return PPtr(("n", 0))
                if n == "event_mm_free_":
                    e_["#pkt"] = None
                    return 0
            except EvalError:
                return "impure"
            return None
        outs = [o for o in run_all(f, (f.entry, 0), env, lambda el: False, P, hook, max_steps=300) if not (o.kind == "exit" and o.why == "noreturn")]
        if len(outs) != 1 or outs[0].kind != "ret":
            return ("unknown", str([(o.kind, o.why) for o in outs][:2]))
        o = outs[0]
        try:
            rv = evalx(normx(o.at.e[1]), o.env, P)
        except EvalError as ex:
            return ("unknown", "return value: %s" % ex)
        m = o.env.get("#pkt") if isinstance(o.env.get("#msg"), PPtr) else None
        if m is not None and o.env.get("#msglen") != len(m):
            m = ("badlen", o.env.get("#msglen"), len(m))
        return (rv, m, o.env.get(CELL("awaiting_packet_size")), o.env["#buf"])

    def feed(cuts):
        state, buf, got = 0, b"", []
        pos = 0
        for c in list(cuts) + [len(stream)]:
            buf += stream[pos:c]
            pos = c
            for _ in range(8):
                res = call(state, buf)
                if res[0] == "unknown":
                    return res
                rv, m, state, buf = res
                if rv:
                    return ("fail", got)
                if m is None:
                    break
                got.append(m)
                state = 0            # the callers reset the expected size after handing the message on
        return ("ok", got, buf)
    nb = 0
    segs = [()] + [(k,) for k in range(1, len(stream))] + [tuple(range(1, len(stream)))]
    for cuts in segs:
        res = feed(cuts)
        if res[0] == "unknown":
            r.brk("tcp_read_message not evaluable (cuts %s): %s" % (list(cuts)[:3], res[1]))
            return r
        ok = res[0] == "ok" and res[1] == msgs and res[2] == b""
        r.inst(cuts if len(cuts) < 3 else "bytewise", {"cuts": list(cuts)[:3], "outcome": res[0], "messages": [len(m) if isinstance(m, bytes) else m for m in res[1]]})
        if not ok and nb < 4:
            nb += 1
            r.bad("K6:tcp_read_message:segmentation", "%s:%d" % (f.file, f.line), f.name,
                  "stream of messages of %s bytes %s: %s, delivered message lengths %s — the messages must be exactly those of the stream whatever the segmentation" % (
                      [len(m) for m in msgs], ("cut at %s" % list(cuts)) if len(cuts) < 3 else "fed byte by byte", "connection failed" if res[0] == "fail" else "ok", [len(m) if isinstance(m, bytes) else m for m in res[1]]))
    # the callers reset awaiting_packet_size after each delivered message
    callers = P.callers().get("tcp_read_message", [])
    for g, el in callers:
        resets = [x for x, lhs, op, rhs in g.stores() if fields_of(lhs)[-1:] == ["tcp_connection.awaiting_packet_size"] and is_e(strip(rhs), "int") and strip(rhs)[1] == 0]
        r.inst(("caller", g.name), {"caller": g.name, "resets_expected_size": [x.where() for x in resets]}, nontrivial=False)
        if not resets:
            r.bad("K3:%s:expected-size-not-reset" % g.name, el.where(), g.name, "after a delivered message the caller does not reset conn->awaiting_packet_size: the next length prefix would be skipped")
    return r
