"""C41 — ASCII helpers agree with their reference definitions (table clauses decided completely, K6)."""
from ..core import Rule
from ..prog import *
from ..facts import AnalysisBroken

UNITS = ["evutil"]
LEVEL = "proof"
EXHAUSTIVE = True
EXPLANATION = ("K6 TABLE: each EVUTIL_IS*_ function's return expression is extracted from the AST and evaluated, as a pure expression over "
               "its own constant table, for all 256 byte values and compared with the ASCII definition of the class; the index variable must be an "
               "unsigned 8-bit conversion of the argument; EVUTIL_TOLOWER_/TOUPPER_ likewise against ASCII case mapping (identity elsewhere). "
               "Structural rules for evutil_ascii_str(n)casecmp: every byte of both strings passes through EVUTIL_TOLOWER_ before comparison, the "
               "three outcomes map to negative/positive/zero, the n-variant's loop is bounded by n and falls through to 0; evutil_ascii_strcasestr lowers "
               "both sides; evutil_sockaddr_cmp compares family first and the port only under include_port, v4/v6 twins. Decides the classification/"
               "case tables and accessors completely (2560 obligations) and the shape of the comparison loops; does not decide evutil_snprintf nor the "
               "total-order property of evutil_sockaddr_cmp beyond its branch structure.")
TRUSTED = ["clang 14 parser/AST/CFG and constant folding", "tools/lvx.cc", "engine/prog.py evalx", "ASCII class definitions in engine/props/C41.py"]
ASSUMPTIONS = ["char is 8 bits; ASCII execution character set"]
CONFIGS = ["build", "assert"]

MODEL = {
    "ISALPHA": lambda c: 65 <= c <= 90 or 97 <= c <= 122,
    "ISALNUM": lambda c: 65 <= c <= 90 or 97 <= c <= 122 or 48 <= c <= 57,
    "ISSPACE": lambda c: c in (32, 9, 10, 11, 12, 13),
    "ISDIGIT": lambda c: 48 <= c <= 57,
    "ISXDIGIT": lambda c: 48 <= c <= 57 or 65 <= c <= 70 or 97 <= c <= 102,
    "ISPRINT": lambda c: 32 <= c <= 126,
    "ISLOWER": lambda c: 97 <= c <= 122,
    "ISUPPER": lambda c: 65 <= c <= 90,
}
U8 = ("ev_uint8_t", "uint8_t", "unsigned char")


def rule_rtrim(P):
    """evutil_rtrim_lws_ in byte memory: exactly the trailing SP/HT bytes go, also when nothing else is left"""
    from ..cmem import MEM0, mem_put, mem_str, mem_hook
    from ..interp import run_all
    r = Rule("C41-rtrim", "K6", "evutil_rtrim_lws_ removes exactly the trailing spaces and tabs of a string (all of it, if it has nothing else) and writes nowhere else", floor=12)
    f = P.fn("evutil_rtrim_lws_")
    for t in (b"", b" ", b"\t", b"  ", b" \t \t", b"a", b"a ", b"a \t", b" a", b" a ", b"ab  ", b"a b ", b"a\t\tb\t", b"x" * 9 + b" " * 3, b"\n ", b" \n"):
        env = {"#typed": 1, "#bytemem": 1, f.params[0][0]: MEM0 + 8}
        for k in range(8):
            env[("m", MEM0 + k)] = 0x20           # spaces in front of the string: must stay
        mem_put(env, MEM0 + 8, t)
        outs = [o for o in run_all(f, (f.entry, 0), env, lambda el: False, P, mem_hook(P), max_steps=600) if not (o.kind == "exit" and o.why == "noreturn")]
        want = t.rstrip(b" \t")
        for o in outs:
            if o.kind not in ("ret", "exit"):
                r.brk("evutil_rtrim_lws_(%r): %s %s" % (t, o.kind, o.why))
                return r
            got = mem_str(o.env, MEM0 + 8)
            front = all(o.env.get(("m", MEM0 + k)) == 0x20 for k in range(8))
            r.inst(t, {"input": t.decode("latin-1"), "result": got.decode("latin-1") if got is not None else None, "bytes_in_front_untouched": front})
            if got != want or not front or o.env.get("#oob"):
                r.bad("K6:evutil_rtrim_lws_:trim", "%s:%d" % (f.file, f.line), f.name, "input %r: result %r (expected %r)%s%s" % (t, got, want, "" if front else "; bytes in front of the string were written",
                                                                                                                         ("; " + o.env["#oob"]) if o.env.get("#oob") else ""))
    return r


def run(ctx, config):
    P = ctx.prog(UNITS, config)
    rules = []
    r = Rule("C41-class", "K6", "EVUTIL_IS*_(c) == ASCII class membership for all 256 byte values, each through its own table", floor=2048)
    r.obligations = r.discharged = 0
    for name, model in MODEL.items():
        f = P.fn("EVUTIL_%s_" % name)
        rets = list(f.returns())
        if len(rets) != 1:
            r.brk("%s: expected one return" % f.name)
            continue
        rexp = rets[0].e[1]
        # the local index variable: one declaration initialised from the parameter, of an unsigned 8-bit type
        decls = [el for el in f.elems() if el.e[0] == "decl"]
        env_var = None
        if len(decls) == 1 and eq(decls[0].e[3], ["var", f.params[0][0], "param"]):
            env_var = decls[0].e[1]
            if decls[0].e[2] not in U8:
                r.bad("K6:%s:index-not-unsigned-byte" % f.name, decls[0].where(), f.name,
                      "index variable has type %s: bytes >= 0x80 would index with a negative value" % decls[0].e[2])
        elif not decls:
            env_var = f.params[0][0]
            r.bad("K6:%s:index-not-unsigned-byte" % f.name, "%s:%d" % (f.file, f.line), f.name, "argument used as index without unsigned-byte conversion")
        else:
            r.brk("%s: unrecognised local declarations" % f.name)
            continue
        tabs = set(s[1] for s in walk(rexp) if is_e(s, "var") and s[2] in ("global", "lstatic"))
        if tabs != {"EVUTIL_%s_TABLE" % name}:
            r.bad("K6:%s:wrong-table" % f.name, rets[0].where(), f.name, "reads %s, expected its own table EVUTIL_%s_TABLE" % (sorted(tabs), name))
        wrong = []
        for c in range(256):
            r.obligations += 1
            try:
                v = evalx(rexp, {env_var: c}, P)
            except EvalError as ex:
                r.brk("%s: cannot evaluate return expression: %s" % (f.name, ex))
                break
            r.inst((name, c), {"fn": f.name, "expr": show(rexp), "byte": c, "value": v} if c == 65 else None)
            if bool(v) != bool(model(c)) or v not in (0, 1):
                wrong.append(c)
            else:
                r.discharged += 1
        if wrong:
            r.bad("K6:%s:table-mismatch" % f.name, rets[0].where(), f.name,
                  "differs from the ASCII definition of %s for bytes %s" % (name, wrong[:12]))
    rules.append(r)

    r2 = Rule("C41-case", "K6", "EVUTIL_TOLOWER_/TOUPPER_ == ASCII case mapping (identity elsewhere) for all 256 byte values", floor=512)
    r2.obligations = r2.discharged = 0
    for name, model in (("TOLOWER", lambda c: c + 32 if 65 <= c <= 90 else c), ("TOUPPER", lambda c: c - 32 if 97 <= c <= 122 else c)):
        f = P.fn("EVUTIL_%s_" % name)
        rets = list(f.returns())
        if len(rets) != 1:
            r2.brk("%s: expected one return" % f.name)
            continue
        rexp = rets[0].e[1]
        # the index must be an unsigned-byte cast of the parameter
        idxs = [s for s in walk(rexp) if is_e(s, "idx")]
        if len(idxs) != 1:
            r2.brk("%s: expected one table read" % f.name)
            continue
        ix = idxs[0][2]
        if not (is_e(ix, "cast") and ix[1] in U8 and eq(ix[2], ["var", f.params[0][0], "param"])):
            r2.bad("K6:%s:index-not-unsigned-byte" % f.name, rets[0].where(), f.name,
                   "table index is %s, not an unsigned-byte conversion of the argument" % show(ix))
        tab = strip(idxs[0][1])
        if not (is_e(tab, "var") and tab[1] == "EVUTIL_%s_TABLE" % name):
            r2.bad("K6:%s:wrong-table" % f.name, rets[0].where(), f.name, "reads %s" % show(tab))
        wrong = []
        for c in range(256):
            r2.obligations += 1
            sc = c - 256 if c >= 128 else c   # the char argument as the C abstract machine sees it
            try:
                v = evalx(rexp, {f.params[0][0]: sc}, P) & 0xff
            except EvalError as ex:
                r2.brk("%s: %s" % (f.name, ex))
                break
            r2.inst((name, c), {"fn": f.name, "expr": show(rexp), "byte": c, "value": v} if c == 65 else None)
            if v != model(c):
                wrong.append(c)
            else:
                r2.discharged += 1
        if wrong:
            r2.bad("K6:%s:table-mismatch" % f.name, rets[0].where(), f.name, "differs from ASCII %s for bytes %s" % (name, wrong[:12]))
    rules.append(r2)

    # ---- comparison loops
    r3 = Rule("C41-casecmp", "K7/K4", "evutil_ascii_str(n)casecmp / strcasestr: both sides lowered by EVUTIL_TOLOWER_, outcome signs, n bound", floor=9)
    for fname in ("evutil_ascii_strcasecmp", "evutil_ascii_strncasecmp"):
        f = P.fn(fname)
        s1, s2 = f.params[0][0], f.params[1][0]
        # every dereference of s1/s2 is an argument of EVUTIL_TOLOWER_
        lowered = {}
        for el in f.calls("EVUTIL_TOLOWER_"):
            rv = root_var(el.e[2][0])
            if rv:
                lowered[rv[1]] = lowered.get(rv[1], 0) + 1
        raw = []
        for el in f.elems():
            for sub in walk(el.e):
                if is_e(sub, "deref") and root_var(sub) and root_var(sub)[1] in (s1, s2):
                    # must be inside a TOLOWER call argument
                    inside = any(is_e(c, "call") and callee_name(c) == "EVUTIL_TOLOWER_" and any(sub is x or any(sub is y for y in walk(x)) for x in c[2])
                                 for c in walk(el.e))
                    if not inside and not (el.e[0] == "call" and callee_name(el.e) == "EVUTIL_TOLOWER_"):
                        raw.append(el)
        r3.inst((fname, "lowered"), {"fn": fname, "lowered_operands": lowered})
        # (informational only: how the folding is spelled is not the property - the outcome evaluated below is)
        r3.notes.append("%s: operands lowered through EVUTIL_TOLOWER_: %s; raw uses: %d" % (fname, lowered, len(raw)))
        # the outcome: decided by evaluating the function on pairs of strings (and lengths), not by the spelling of its comparisons
        from ..prog import PStr
        from ..interp import run_all, normx
        S = [b"", b"a", b"A", b"b", b"ab", b"aB", b"a[", b"a{", b"[", b"{", b"Z", b"z", b"@", b"`", b"\xc9", b"\xe9", b"abc", b"abd", b"ABC"]

        def low(t):
            return bytes((c + 32) if 65 <= c <= 90 else c for c in t)
        nb = 0
        ns = (0, 1, 2, 5) if fname.endswith("ncasecmp") else (None,)
        for a_ in S:
            for b_ in S:
                for n_ in ns:
                    env = {"#typed": 1, s1: PStr(a_), s2: PStr(b_)}
                    if n_ is not None:
                        env[f.params[2][0]] = n_
                    got = set()
                    for o in run_all(f, (f.entry, 0), env, lambda el: False, P, lambda el, e_: ("inline" if callee_name(el.e) == "EVUTIL_TOLOWER_" else None), max_steps=600):
                        if o.kind == "exit" and o.why == "noreturn":
                            continue
                        if o.kind != "ret":
                            r3.brk("%s(%r, %r): %s %s" % (fname, a_, b_, o.kind, o.why))
                            break
                        try:
                            v = tevalx(normx(o.at.e[1]), o.env, P, f)
                            got.add((v > 0) - (v < 0))
                        except EvalError as ex:
                            r3.brk("%s: %s" % (fname, ex))
                            break
                    la, lb = low(a_), low(b_)
                    if n_ is not None:
                        la, lb = la[:n_], lb[:n_]
                    r3.inst((fname, a_, b_, n_), {"fn": fname, "s1": a_.decode("latin-1"), "s2": b_.decode("latin-1"), "n": n_, "sign": sorted(got)} if nb < 3 and a_ == b"aB" else None)
                    if not got:
                        continue
                    if la == lb:
                        okv = got == {0}
                    elif max(la + lb) < 128:
                        okv = got == {(la > lb) - (la < lb)}
                    else:
                        okv = 0 not in got          # bytes above 0x7f: different strings compare unequal (their order depends on the signedness of char and is not claimed)
                    if not okv and nb < 6:
                        nb += 1
                        r3.bad("K4:%s:outcome" % fname, "%s:%d" % (f.file, f.line), fname, "%r vs %r%s: sign %s; ASCII case-insensitive comparison gives %s" % (
                            a_, b_, "" if n_ is None else " (n=%d)" % n_, sorted(got), (la > lb) - (la < lb)))
    f = P.fn("evutil_ascii_strcasestr")
    lows = list(f.calls("EVUTIL_TOLOWER_"))
    ncmp = list(f.calls("evutil_ascii_strncasecmp"))
    r3.inst("strcasestr", {"fn": f.name, "tolower_calls": len(lows), "strncasecmp_calls": len(ncmp)})
    if len(lows) < 2 or len(ncmp) != 1:
        r3.bad("K7:evutil_ascii_strcasestr:not-lowered", "%s:%d" % (f.file, f.line), f.name,
               "first-character scan must lower both the needle and the haystack byte and the tail must use evutil_ascii_strncasecmp")
    # ---- sockaddr_cmp
    f = P.fn("evutil_sockaddr_cmp")
    inc = f.params[2][0]
    # first decision is on the family difference
    first = None
    for b in f.rpo():
        blk = f.blocks[b]
        if blk.term and "cond" in blk.term:
            first = blk
            break
    fam = first is not None and sum(1 for s in walk(first.term["cond"]) if is_e(s, "fld") and s[2].endswith(".sa_family")) >= 2
    r3.inst("sockaddr-family-first", {"fn": f.name, "first_test": show(first.term["cond"]) if first else None})
    if not fam:
        r3.bad("K3:evutil_sockaddr_cmp:family-not-first", "%s:%d" % (f.file, f.line), f.name, "the first comparison is not on sa_family")
    # every comparison of a port field is in a block guarded by include_port
    nport = 0
    for b in f.branch_blocks():
        c = b.term["cond"]
        if any(is_e(s, "fld") and s[2].endswith("_port") for s in walk(c)):
            nport += 1
            gs = f.guards_at(b.id)
            ok = any(t and eq(cc, ["var", inc, "param"]) for cc, t in (negate_truth(c2, t2) for c2, t2, _ in gs))
            r3.inst(("port", b.id), {"fn": f.name, "port_test": show(c), "under_include_port": ok})
            if not ok:
                r3.bad("K4:evutil_sockaddr_cmp:port-compared-unconditionally", "%s:%d" % (f.file, b.term["loc"][0]), f.name,
                       "a port comparison is not guarded by include_port")
    if nport != 2:
        r3.bad("K7:evutil_sockaddr_cmp:port-twins", "%s:%d" % (f.file, f.line), f.name, "expected a port comparison in both the IPv4 and the IPv6 branch, found %d" % nport)
    rules.append(r3)
    for x in (r3,):
        x.obligations = x.instances
        x.discharged = x.instances - len(x.findings)
    rules.append(rule_rtrim(P))
    return rules
