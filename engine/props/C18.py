"""C18 — watermarks gate callbacks and bound buffering: evaluation of the gating/limit code over small domains (K6), who-may-invoke (K2)."""
from ..core import Rule
from ..prog import *
from ..facts import AnalysisBroken
from ..interp import normx, nkey, run_all

UNITS = ["bufferevent", "bufferevent_sock", "bufferevent_filter", "bufferevent_pair", "bufferevent_ssl", "bufferevent_ratelim", "bufferevent_openssl", "bufferevent_mbedtls"]
LEVEL = "other"
CONFIGS = ["build", "assert"]
EXPLANATION = (
    "W1 (who-may-invoke, all bufferevent units): the user's read/write callbacks are invoked only by bufferevent_run_readcb_/writecb_ and the two deferred "
    "runners, and those two are called only from bufferevent_trigger_nolock_; that function is evaluated on every (iotype, IGNORE_WATERMARKS, buffer length vs low "
    "mark) combination: read callback exactly when READ is requested and (ignore or input >= wm_read.low), write callback exactly when WRITE and (ignore or "
    "output <= wm_write.low). W2: the socket read callback is evaluated over (high mark unset/set, input below/at/above it, rate-limit maximum below/above the room): "
    "the size handed to evbuffer_read never exceeds high - len(input), and at or above the mark it suspends reading instead of reading. W3: bufferevent_inbuf_wm_cb "
    "suspends exactly when size >= high; bufferevent_setwatermark stores the marks of the requested direction, enables the watermark callback and (un)suspends by the "
    "current length, and without a high mark disables it and unsuspends. W4: both filter directions are evaluated for three consecutive filter calls with the "
    "destination buffer growing between calls: the limit handed to the filter is recomputed from the current length each time (high - len) in normal mode and -1 "
    "otherwise, and normal mode does not call the filter when the destination is already full. W5: be_pair_transfer moves at most high - len(dst input) when the "
    "partner has a high read mark, nothing at/above it unless flushing. Declined: resumption timing, watermark changes while suspended, ordering with user "
    "callbacks that change the marks.")
ASSUMPTIONS = ["evbuffer_get_length is the only way these functions observe buffer sizes"]

R_, W_ = 0x02, 0x04
IGN = 1 << 16


def buf_name(e):
    """'in:<root>' / 'out:<root>' for an expression naming a bufferevent's input/output buffer"""
    e = strip(e)
    fl = fields_of(e)
    if fl and fl[-1] in ("bufferevent.input", "bufferevent.output"):
        kind = "in" if fl[-1].endswith("input") else "out"
        under = any(x.endswith(".underlying") for x in fl)
        rv = root_var(e)
        return "%s:%s%s" % (kind, "under" if under else "self", "")
    return None


def len_hook(lens, extra=None):
    def hook(el, e_):
        n = callee_name(el.e)
        if n == "evbuffer_get_length":
            a = strip(el.e[2][0])
            nm = buf_name(a)
            if nm is None and is_e(a, "var"):
                nm = e_.get("#alias:" + a[1])
            if nm in lens:
                return e_.get("#len:" + nm, lens[nm])
            return None
        if extra:
            return extra(el, e_)
        return None
    return hook


def rule_who(P):
    r = Rule("C18-who", "K2", "user read/write callbacks are invoked only through the trigger path", floor=6)
    RUNNERS = {"bufferevent_run_readcb_", "bufferevent_run_writecb_", "bufferevent_run_deferred_callbacks_locked", "bufferevent_run_deferred_callbacks_unlocked"}
    for f in P.all_fns:
        for el in f.calls():
            sl = callee_slot(el.e)
            is_user = sl in ("bufferevent.readcb", "bufferevent.writecb")
            if not is_user and el.e[1][0] == "ptr":
                v = strip(el.e[1][1])
                if is_e(v, "var"):
                    is_user = any(is_e(strip(rhs), "fld") and strip(rhs)[2] in ("bufferevent.readcb", "bufferevent.writecb") for d, rhs in f.var_stores(v[1]))
            if is_user:
                r.inst((f.name, el.n), {"fn": f.name, "site": el.where()}, nontrivial=False)
                if f.name not in RUNNERS:
                    r.bad("K2:%s:user-callback-outside-trigger-path" % f.name, el.where(), f.name, "a user read/write callback is invoked without passing the watermark test of bufferevent_trigger_nolock_")
            n = callee_name(el.e)
            if n in ("bufferevent_run_readcb_", "bufferevent_run_writecb_"):
                r.inst((f.name, el.n, n), {"fn": f.name, "site": el.where(), "calls": n}, nontrivial=False)
                if f.name != "bufferevent_trigger_nolock_":
                    r.bad("K2:%s:runner-outside-trigger" % f.name, el.where(), f.name, "%s is called directly, bypassing the watermark test" % n)
    return r


def rule_trigger(P):
    r = Rule("C18-trigger", "K6", "bufferevent_trigger_nolock_: callback selection on every (iotype, ignore, length vs low mark) combination", floor=40)
    f = P.fn("bufferevent_trigger_nolock_")
    bev = ["var", f.params[0][0], "param"]
    klr = nkey(["fld", ["fld", bev, "bufferevent.wm_read", "->"], "event_watermark.low", "."])
    klw = nkey(["fld", ["fld", bev, "bufferevent.wm_write", "->"], "event_watermark.low", "."])
    nbad = 0
    for iot in (0, R_, W_, R_ | W_):
        for opt in (0, IGN, 4):
            for inlen in (9, 10, 11):
                for outlen in (19, 20, 21):
                    env = {bev[1]: 1, f.params[1][0]: iot, f.params[2][0]: opt, klr: 10, klw: 20}
                    def extra(el, e_):
                        n = callee_name(el.e)
                        if n in ("bufferevent_run_readcb_", "bufferevent_run_writecb_"):
                            e_["#ran"] = e_.get("#ran", ()) + (n[len("bufferevent_run_"):-3],)
                        return None
                    for o in run_all(f, (f.entry, 0), env, lambda el: False, P, len_hook({"in:self": inlen, "out:self": outlen}, extra)):
                        if o.kind == "unknown":
                            r.brk("trigger_nolock_: %s" % o.why)
                            return r
                        ran = set(o.env.get("#ran", ()))
                        want = set()
                        if iot & R_ and (opt & IGN or inlen >= 10):
                            want.add("read")
                        if iot & W_ and (opt & IGN or outlen <= 20):
                            want.add("write")
                        r.inst((iot, opt, inlen, outlen), {"iotype": iot, "options": hex(opt), "input_len": inlen, "output_len": outlen, "low_marks": [10, 20], "runs": sorted(ran)})
                        if ran != want and nbad < 3:
                            nbad += 1
                            r.bad("K6:bufferevent_trigger_nolock_:gate", "%s:%d" % (f.file, f.line), f.name,
                                  "iotype=%#x options=%#x input=%d output=%d (low marks read 10, write 20): runs %s, documented %s" % (iot, opt, inlen, outlen, sorted(ran), sorted(want)))
    return r


def rule_sockread(P):
    r = Rule("C18-sockread", "K6", "socket read: size handed to evbuffer_read <= high - len(input); at/above the mark it suspends instead of reading", floor=10)
    cands = [n for n in P.registered("event_assign", 4) if P.has(n) and P.fn(n).file == "bufferevent_sock.c" and any(True for _ in P.fn(n).calls("evbuffer_read"))]
    if len(cands) != 1:
        r.brk("socket read callback not identified: %s" % cands)
        return r
    f = P.fn(cands[0])
    bev = ["var", "bufev", "local"]
    khigh = nkey(["fld", ["fld", bev, "bufferevent.wm_read", "->"], "event_watermark.high", "."])
    nbad = 0
    for high in (0, 100):
        for inlen in (40, 100, 150):
            for readmax in (30, 1000):
                env = {"bufev": 1, "bufev_p": 1, "input": 1, f.params[1][0]: R_, khigh: high, "#alias:input": "in:self",
                       nkey(["fld", ["var", "bufev_p", "local"], "bufferevent_private.read_suspended", "->"]): 0}
                def extra(el, e_):
                    n = callee_name(el.e)
                    if n == "bufferevent_get_read_max_":
                        return readmax
                    if n == "evbuffer_read":
                        try:
                            e_["#read"] = evalx(normx(el.e[2][2]), e_, P)
                        except EvalError:
                            e_["#read"] = "?"
                        return 1
                    if n == "bufferevent_suspend_read_":
                        e_["#suspended"] = 1
                        return 0
                    return None
                for o in run_all(f, (f.entry, 0), env, lambda el: False, P, len_hook({"in:self": inlen}, extra), max_steps=900):
                    if o.kind == "exit" and o.why == "noreturn":
                        continue
                    if o.kind == "unknown":
                        r.brk("%s: %s" % (f.name, o.why))
                        return r
                    rd = o.env.get("#read")
                    sus = o.env.get("#suspended", 0)
                    r.inst((high, inlen, readmax), {"high": high, "input_len": inlen, "read_max": readmax, "evbuffer_read_size": rd, "suspended": bool(sus)})
                    msg = None
                    if high and inlen >= high:
                        if rd is not None or not sus:
                            msg = "input already at/above the high mark: %s, suspended=%s (must suspend and not read)" % ("reads %s" % rd if rd is not None else "no read", bool(sus))
                    else:
                        lim = min(readmax, high - inlen) if high else readmax
                        if rd != lim:
                            msg = "reads %s bytes, documented min(read max, high - len) = %d" % (rd, lim)
                    if msg and nbad < 3:
                        nbad += 1
                        r.bad("K6:%s:read-size" % f.name, "%s:%d" % (f.file, f.line), f.name, "high=%d len=%d read_max=%d: %s" % (high, inlen, readmax, msg))
    return r


def rule_wmcb(P):
    r = Rule("C18-wm", "K6", "inbuf watermark callback and bufferevent_setwatermark", floor=12)
    f = P.fn("bufferevent_inbuf_wm_cb")
    bev = ["var", "bufev", "local"]
    kh = nkey(["fld", ["fld", bev, "bufferevent.wm_read", "->"], "event_watermark.high", "."])
    def extra(el, e_):
        n = callee_name(el.e)
        if n == "bufferevent_suspend_read_":
            e_["#act"] = e_.get("#act", ()) + ("suspend",)
            return 0
        if n == "bufferevent_unsuspend_read_":
            e_["#act"] = e_.get("#act", ()) + ("unsuspend",)
            return 0
        if n in ("evbuffer_add_cb",):
            e_["#act"] = e_.get("#act", ()) + ("addcb",)
            return 1
        if n in ("evbuffer_cb_set_flags",):
            e_["#act"] = e_.get("#act", ()) + ("enablecb",)
            return 0
        if n in ("evbuffer_cb_clear_flags",):
            e_["#act"] = e_.get("#act", ()) + ("disablecb",)
            return 0
        if n == "evbuffer_get_length":
            return e_.get("#len")
        return None
    for size in (99, 100, 101):
        env = {"bufev": 1, f.params[0][0]: 1, kh: 100, "#len": size}
        for o in run_all(f, (f.entry, 0), env, lambda el: False, P, extra):
            act = o.env.get("#act", ())
            want = ("suspend",) if size >= 100 else ("unsuspend",)
            r.inst(("cb", size), {"size": size, "high": 100, "action": list(act)})
            if act != want:
                r.bad("K6:bufferevent_inbuf_wm_cb:decision", "%s:%d" % (f.file, f.line), f.name, "size=%d high=100: %s, documented %s" % (size, list(act), list(want)))
    g = P.fn("bufferevent_setwatermark")
    bv = ["var", g.params[0][0], "param"]
    K = lambda d, w: nkey(["fld", ["fld", bv, "bufferevent.wm_" + d, "->"], "event_watermark." + w, "."])
    kcb = nkey(["fld", ["var", "bufev_private", "local"], "bufferevent_private.read_watermarks_cb", "->"])
    nb = 0
    for events in (R_, W_, R_ | W_):
        for high in (0, 50):
            for ilen in (10, 50, 90):
                for havecb in (0, 1):
                    env = {bv[1]: 1, "bufev_private": 1, g.params[1][0]: events, g.params[2][0]: 5, g.params[3][0]: high, K("read", "low"): 1, K("read", "high"): 2, K("write", "low"): 3,
                           K("write", "high"): 4, kcb: havecb, "#len": ilen, nkey(["fld", ["var", "bufev_private", "local"], "bufferevent_private.lock", "->"]): 0}
                    for o in run_all(g, (g.entry, 0), env, lambda el: False, P, extra, max_steps=700):
                        if o.kind == "exit" and o.why == "noreturn":
                            continue
                        if o.kind == "unknown":
                            r.brk("bufferevent_setwatermark: %s" % o.why)
                            return r
                        got = (o.env.get(K("read", "low")), o.env.get(K("read", "high")), o.env.get(K("write", "low")), o.env.get(K("write", "high")))
                        want = ((5, high) if events & R_ else (1, 2)) + ((5, high) if events & W_ else (3, 4))
                        act = [a for a in o.env.get("#act", ())]
                        wact = []
                        if events & R_:
                            if high:
                                if not havecb:
                                    wact.append("addcb")
                                wact.append("enablecb")
                                wact.append("suspend" if ilen >= high else "unsuspend")
                            else:
                                if havecb:
                                    wact.append("disablecb")
                                wact.append("unsuspend")
                        r.inst(("set", events, high, ilen, havecb), {"events": events, "high": high, "input_len": ilen, "marks_after": list(got), "actions": act})
                        if (got != want or act != wact) and nb < 3:
                            nb += 1
                            r.bad("K6:bufferevent_setwatermark:effect", "%s:%d" % (g.file, g.line), g.name,
                                  "events=%#x high=%d input=%d cb=%d: marks %s actions %s; documented marks %s actions %s" % (events, high, ilen, havecb, got, act, want, wact))
    return r


def rule_filter(P):
    r = Rule("C18-filter", "K6", "filter limits are recomputed from the current destination length on every filter call; no call when the destination is full in normal mode", floor=16)
    for name, slot, dst, wm, src in (("be_filter_process_output", "bufferevent_filtered.process_out", "out:under", "write", "out:self"),
                                     ("be_filter_process_input", "bufferevent_filtered.process_in", "in:self", "read", "in:under")):
        f = P.fn(name)
        bevf = ["var", f.params[0][0], "param"]
        statep = f.params[1][0]
        # where the watermark lives
        if wm == "write":
            owner = ["fld", bevf, "bufferevent_filtered.underlying", "->"]
        else:
            owner = None
        nbad = 0
        for state in (0, 1, 2):       # BEV_NORMAL, BEV_FLUSH, BEV_FINISHED
            for high in (0, 10):
                for start in (0, 4, 10):
                    lens = {dst: start, src: 64}
                    envs = {bevf[1]: 1, statep: state, f.params[2][0]: 1, "bev": 1, "bufev": 1}
                    # every syntactic spelling of the mark
                    def markkeys():
                        out = []
                        for root in (bevf, ["var", "bev", "local"], ["var", "bufev", "local"]):
                            if wm == "write":
                                out.append(nkey(["fld", ["fld", ["fld", root, "bufferevent_filtered.underlying", "->"], "bufferevent.wm_write", "->"], "event_watermark.high", "."]))
                            else:
                                out.append(nkey(["fld", ["fld", root, "bufferevent.wm_read", "->"], "event_watermark.high", "."]))
                                out.append(nkey(["fld", ["fld", ["fld", ["fld", root, "bufferevent_filtered.bev", "->"], "bufferevent_private.bev", "."], "bufferevent.wm_read", "."], "event_watermark.high", "."]))
                        return out
                    for k_ in markkeys():
                        envs[k_] = high
                    for root in (["var", "bev", "local"], ["var", "bufev", "local"]):
                        envs[nkey(["fld", root, "bufferevent.enabled", "->"])] = R_ | W_
                    def extra(el, e_):
                        sl = callee_slot(el.e)
                        n = callee_name(el.e)
                        if sl == slot:
                            try:
                                lim = evalx(normx(el.e[2][2]), e_, P)
                            except EvalError:
                                lim = "?"
                            cur = e_.get("#len:" + dst, lens[dst])
                            e_["#limits"] = e_.get("#limits", ()) + ((cur, lim),)
                            k = len(e_["#limits"])
                            e_["#len:" + dst] = cur + 4          # a record-oriented filter moves 4 bytes per call
                            e_["#len:" + src] = e_.get("#len:" + src, lens[src]) - 4
                            return 0 if k < 3 else 1       # BEV_OK twice, then BEV_NEED_MORE
                        if n == "downcast":
                            return 1
                        if n in ("be_underlying_writebuf_full", "be_readbuf_full"):
                            cur = e_.get("#len:" + dst, lens[dst])
                            return int(state == 0 and high != 0 and cur >= high)
                        return None
                    for o in run_all(f, (f.entry, 0), envs, lambda el: False, P, len_hook(lens, extra), max_steps=1500):
                        if o.kind == "exit" and o.why == "noreturn":
                            continue
                        if o.kind == "unknown":
                            r.brk("%s: %s" % (name, o.why))
                            return r
                        lim = o.env.get("#limits", ())
                        r.inst((name, state, high, start), {"fn": name, "state": state, "high": high, "dst_len_at_entry": start, "calls(len,limit)": [list(x) for x in lim]})
                        msg = None
                        for cur, l in lim:
                            want = (high - cur) if (state == 0 and high) else -1
                            if l != want:
                                msg = "filter called with dst_limit %s while the destination holds %d (high %d): expected %d" % (l, cur, high, want)
                                break
                            if state == 0 and high and cur >= high:
                                msg = "filter called although the destination is already at its high mark (%d >= %d)" % (cur, high)
                                break
                        if msg and nbad < 3:
                            nbad += 1
                            r.bad("K6:%s:limit" % name, "%s:%d" % (f.file, f.line), name, "state=%d high=%d start=%d: %s" % (state, high, start, msg))
    return r


def rule_pair(P):
    r = Rule("C18-pair", "K6", "be_pair_transfer moves at most high - len(dst input); nothing at/above the mark unless flushing", floor=8)
    f = P.fn("be_pair_transfer")
    dstv = ["var", f.params[1][0], "param"]
    kh = nkey(["fld", ["fld", dstv, "bufferevent.wm_read", "->"], "event_watermark.high", "."])
    def which(a):
        a = strip(a)
        fl = fields_of(a)
        rv = root_var(a)
        if fl and rv is not None:
            return ("dst" if rv[1] == f.params[1][0] else "src") + (".in" if fl[-1].endswith("input") else ".out")
        return None
    nb = 0
    for high in (0, 10):
        for dlen in (4, 10, 12):
            for ign in (0, 1):
                env = {f.params[0][0]: 1, dstv[1]: 1, f.params[2][0]: ign, kh: high}
                def hook(el, e_):
                    n = callee_name(el.e)
                    if n == "evbuffer_get_length":
                        w = which(el.e[2][0])
                        return {"dst.in": dlen, "src.out": 50, "dst.out": 0}.get(w)
                    if n == "evbuffer_remove_buffer":
                        try:
                            e_["#moved"] = evalx(normx(el.e[2][2]), e_, P)
                        except EvalError:
                            e_["#moved"] = "?"
                        return 0
                    if n == "evbuffer_add_buffer":
                        e_["#moved"] = "all"
                        return 0
                    return None
                for o in run_all(f, (f.entry, 0), env, lambda el: False, P, hook, max_steps=900):
                    if o.kind == "unknown":
                        r.brk("be_pair_transfer: %s" % o.why)
                        return r
                    mv = o.env.get("#moved")
                    if high == 0:
                        want = "all"
                    elif ign:
                        want = "all"        # a flush ignores the reader's mark (parameter ignore_wm): be_pair_flush announces EOF right after it (C17)
                    elif dlen < high:
                        want = high - dlen
                    else:
                        want = None
                    r.inst((high, dlen, ign), {"high": high, "dst_input_len": dlen, "flush": ign, "moved": mv})
                    if mv != want and nb < 3:
                        nb += 1
                        r.bad("K6:be_pair_transfer:amount", "%s:%d" % (f.file, f.line), f.name, "high=%d dst input=%d flush=%d: moves %s, documented %s" % (high, dlen, ign, mv, want))
    return r


def run(ctx, config):
    P = ctx.prog(UNITS, config)
    return [rule_who(P), rule_trigger(P), rule_sockread(P), rule_wmcb(P), rule_filter(P), rule_pair(P)]
