"""C04 — backends report exactly the ready I/O that was asked for: kernel->libevent flag maps and result masking, by exhaustive evaluation of the extracted code (K6), sibling agreement (K7)."""
from ..core import Rule
from ..prog import *
from ..facts import AnalysisBroken
from ..interp import normx, nkey, run_all
from ..fsm import Machine, EVLIST as L, EV

UNITS = ["evmap", "epoll", "poll", "select", "event"]
LEVEL = "other"
CONFIGS = ["build", "assert"]
EXPLANATION = (
    "B1: evmap_io_active_ is evaluated for every event interest (READ/WRITE/CLOSED/ET/PERSIST) x every reported condition set: the event is "
    "activated exactly when it asked for one of the reported conditions, with result flags = its interest AND the report (never a condition it did "
    "not ask for, never one that was not reported). B2: for every function stored in an eventop dispatch slot the loop body that translates kernel "
    "readiness into libevent flags is evaluated on every combination of the kernel bits it reads (epoll: IN/OUT/RDHUP/ERR/HUP, poll: "
    "IN/OUT/HUP/ERR/NVAL/RDHUP, select: read set/write set) and compared with the reference map; the fd passed on is the one the kernel record names; "
    "nothing is reported when the map is empty. B3: only the epoll backend adds EV_ET to the report. B4: event_del_nolock_ leaves the event on no "
    "active queue (from the C02 flag machine) so no callback can run for it after event_del returns in the loop thread; a failed wait (-1) reports "
    "nothing (EINTR -> 0, other errors -> -1). Declined: real readiness, level/edge dynamics, cross-backend agreement on concrete scenarios.")
ASSUMPTIONS = ["kernel constants as in the platform headers (EPOLL*/POLL* values are folded by clang)"]

R_, W_, S_, ET_, C_, P_ = 0x02, 0x04, 0x08, 0x20, 0x80, 0x10


def rule_active(P):
    r = Rule("C04-active", "K6", "evmap_io_active_: activation condition and result masking on every interest x report combination", floor=200)
    f = P.fn("evmap_io_active_")
    evp = f.params[2][0]
    acts = list(f.calls("event_active_nolock_"))
    if len(acts) != 1:
        r.brk("expected one event_active_nolock_ in evmap_io_active_")
        return r
    a = acts[0]
    X = strip(a.e[2][0])
    # loop body start: the block holding the selection test
    blk = [b for b in f.branch_blocks() if any(is_e(q, "fld") and q[2] == "event.ev_events" for q in walk(b.term["cond"]))]
    if len(blk) != 1:
        r.brk("selection test not found")
        return r
    hdrs = f.loops_of(blk[0].id)
    nbad = 0
    for interest in [a_ | b | c | d | e for a_ in (0, R_) for b in (0, W_) for c in (0, C_) for d in (0, ET_) for e in (0, P_)]:
        for report in [a_ | b | c | d for a_ in (0, R_) for b in (0, W_) for c in (0, C_) for d in (0, ET_)]:
            env = {evp: report, X[1]: 1, nkey(["fld", X, "event.ev_events", "->"]): interest}
            outs = run_all(f, (blk[0].id, 0), env, lambda el: el is a, P, lambda el, e_: None, exit_blocks=tuple(hdrs))
            for o in outs:
                if o.kind == "unknown":
                    r.brk("evmap_io_active_: %s" % o.why)
                    return r
                fired = o.kind == "stop"
                res = None
                if fired:
                    try:
                        res = evalx(normx(a.e[2][1]), o.env, P)
                    except EvalError:
                        r.brk("result argument not evaluable")
                        return r
                want_fire = bool(interest & report & (R_ | W_ | C_))
                want_res = interest & report
                r.inst((interest, report), {"interest": hex(interest), "reported": hex(report), "activated": fired, "res": hex(res) if res is not None else None})
                if (fired != want_fire or (fired and res != want_res)) and nbad < 3:
                    nbad += 1
                    r.bad("K6:evmap_io_active_:masking", a.where(), f.name,
                          "event interested in %#x, backend reports %#x: %s; documented: %s" % (
                              interest, report, ("activated with %#x" % res) if fired else "not activated",
                              ("activated with %#x" % want_res) if want_fire else "not activated"))
    return r


EPOLL = {"IN": 0x001, "OUT": 0x004, "ERR": 0x008, "HUP": 0x010, "RDHUP": 0x2000}
POLLB = {"IN": 0x001, "OUT": 0x004, "ERR": 0x008, "HUP": 0x010, "NVAL": 0x020, "RDHUP": 0x2000}


def model_epoll(what):
    if what & EPOLL["ERR"]:
        return R_ | W_
    if what & EPOLL["HUP"] and not what & EPOLL["RDHUP"]:
        return R_ | W_
    ev = 0
    if what & EPOLL["IN"]:
        ev |= R_
    if what & EPOLL["OUT"]:
        ev |= W_
    if what & EPOLL["RDHUP"]:
        ev |= C_
    return ev


def model_poll(what):
    if what & (POLLB["HUP"] | POLLB["ERR"] | POLLB["NVAL"]):
        what |= POLLB["IN"] | POLLB["OUT"]
    ev = 0
    if what & POLLB["IN"]:
        ev |= R_
    if what & POLLB["OUT"]:
        ev |= W_
    if what & POLLB["RDHUP"]:
        ev |= C_
    return ev


def subsets(bits):
    out = [0]
    for b in bits:
        out += [x | b for x in out]
    return out


def rule_maps(P):
    r = Rule("C04-maps", "K6/K7", "each dispatch slot's readiness translation equals the reference map on every kernel-bit combination; fd provenance; ET only from epoll", floor=100)
    disp = P.slots().get("eventop.dispatch", set())
    if not {"epoll_dispatch", "poll_dispatch", "select_dispatch"} <= disp:
        r.brk("dispatch slot functions missing: %s" % sorted(disp))
        return r
    for name in sorted(disp):
        f = P.fn(name)
        acts = list(f.calls("evmap_io_active_"))
        if len(acts) != 1:
            if name in ("epoll_dispatch", "poll_dispatch", "select_dispatch"):
                r.brk("%s: expected one evmap_io_active_ call" % name)
            continue
        a = acts[0]
        hdrs = f.loops_of(a.bid)
        if not hdrs:
            r.brk("%s: report is not in a loop" % name)
            continue
        hdr = min(hdrs, key=lambda h: len(f.natural_loop(h)))
        body = f.natural_loop(hdr)
        nbad = 0
        if name in ("epoll_dispatch", "poll_dispatch"):
            # the local that receives the kernel bits
            src_field = "epoll_event.events" if name == "epoll_dispatch" else "pollfd.revents"
            defs = [el for el in f.elems() if el.bid in body and el.e[0] in ("decl", "asg") and any(is_e(q, "fld") and q[2] == src_field for q in walk(el.e[3] if el.e[0] in ("decl", "asg") else el.e))]
            if len(defs) != 1:
                r.brk("%s: read of %s in the report loop not found" % (name, src_field))
                continue
            d = defs[0]
            wv = d.e[1] if d.e[0] == "decl" else strip(d.e[2])[1]
            bits = EPOLL if name == "epoll_dispatch" else POLLB
            model = model_epoll if name == "epoll_dispatch" else model_poll
            # fd provenance: same array element as the bits
            rec = [q for q in walk(d.e) if is_e(q, "idx")]
            fdarg = a.e[2][1]
            same = bool(rec) and any(is_e(q, "idx") and eq(q, rec[0]) for q in walk(fdarg))
            r.inst((name, "fd"), {"fn": name, "bits_from": show(rec[0]) if rec else None, "fd_arg": show(fdarg), "same_record": same})
            if not same:
                r.bad("K8:%s:fd-from-other-record" % name, a.where(), name, "the fd reported (%s) does not come from the kernel record whose readiness bits are translated (%s)" % (show(fdarg), show(rec[0]) if rec else "?"))
            for what in subsets(bits.values()):
                env = {wv: what, "res": 77}
                if name == "epoll_dispatch":
                    env[nkey(["fld", ["var", "epollop", "local"], "epollop.timerfd", "->"])] = -1
                outs = run_all(f, (d.bid, d.idx + 1), env, lambda el: el is a, P, lambda el, e_: None, exit_blocks=(hdr,))
                for o in outs:
                    if o.kind == "unknown":
                        r.brk("%s: %s" % (name, o.why))
                        break
                    want = model(what)
                    got = None
                    if o.kind == "stop":
                        try:
                            got = evalx(normx(a.e[2][2]), o.env, P)
                        except EvalError as ex:
                            r.brk("%s: reported flags not evaluable (%s)" % (name, ex))
                            break
                    et = (got or 0) & ET_
                    core = (got & ~ET_) if got is not None else 0
                    r.inst((name, what), {"fn": name, "kernel_bits": hex(what), "reported": hex(got) if got is not None else None, "expected": hex(want)})
                    ok = (core == want) and ((got is not None) == (want != 0)) and (bool(et) == (name == "epoll_dispatch") or got is None)
                    if not ok and nbad < 3:
                        nbad += 1
                        r.bad("K6:%s:readiness-map" % name, a.where(), name, "kernel reports %s: libevent reports %s, reference map says %#x%s" % (
                            "|".join(n for n, v in bits.items() if what & v) or "nothing", hex(got) if got is not None else "nothing", want,
                            "" if bool(et) == (name == "epoll_dispatch") or got is None else " (EV_ET must be passed on by epoll only)"))
        elif name == "select_dispatch":
            tests = [b for b in f.branch_blocks() if b.id in body and b.term.get("mac") and "FD_ISSET" in b.term["mac"]]
            sets = {}
            for b in tests:
                for q in walk(b.term["cond"]):
                    if is_e(q, "fld") and q[2] in ("selectop.event_readset_out", "selectop.event_writeset_out"):
                        sets[q[2]] = b
            if len(sets) != 2:
                r.brk("select_dispatch: FD_ISSET tests of both out-sets not found")
                continue
            iv = strip(a.e[2][1])
            if not is_e(iv, "var"):
                r.brk("select_dispatch: fd argument is not the scan variable")
                continue
            # the word/bit the tests look at, for i = 70
            I = 70
            def word_key(b):
                for q in walk(normx(b.term["cond"])):
                    if is_e(q, "idx"):
                        return key(["idx", q[1], ["int", I // 64]])
                return None
            kr, kw = word_key(sets["selectop.event_readset_out"]), word_key(sets["selectop.event_writeset_out"])
            start = min(tests, key=lambda b: -b.id)   # first test in source order has the larger block id in clang's numbering
            first = [b for b in tests if all(f.dominates(b.id, o.id) for o in tests)]
            start = first[0] if first else start
            # start from the statement `res = 0` preceding the tests when present
            pre = [el for el, lhs, op, rhs in f.stores() if el.bid in body and is_e(strip(lhs), "var") and strip(lhs)[1] == "res" and is_e(strip(rhs), "int") and strip(rhs)[1] == 0]
            sp = (pre[0].bid, pre[0].idx) if pre and f.dominates(pre[0].bid, start.id) else (start.id, 0)
            for rd in (0, 1):
                for wr in (0, 1):
                    env = {iv[1]: I, kr: (1 << (I % 64)) if rd else 0, kw: (1 << (I % 64)) if wr else 0, "res": 99}
                    outs = run_all(f, sp, env, lambda el: el is a, P, lambda el, e_: None, exit_blocks=(hdr,))
                    for o in outs:
                        if o.kind == "unknown":
                            r.brk("select_dispatch: %s" % o.why)
                            break
                        want = (R_ if rd else 0) | (W_ if wr else 0)
                        got = None
                        if o.kind == "stop":
                            try:
                                got = evalx(normx(a.e[2][2]), o.env, P)
                                fdv = evalx(normx(a.e[2][1]), o.env, P)
                            except EvalError as ex:
                                r.brk("select_dispatch: %s" % ex)
                                break
                            if fdv != I:
                                r.bad("K8:select_dispatch:fd", a.where(), name, "reports fd %s for bit %d" % (fdv, I))
                        r.inst((name, rd, wr), {"fn": name, "read_set": rd, "write_set": wr, "reported": hex(got) if got is not None else None})
                        if ((got or 0) != want or (got is not None) != (want != 0)) and nbad < 3:
                            nbad += 1
                            r.bad("K6:select_dispatch:readiness-map", a.where(), name, "read set %d, write set %d: reports %s, expected %#x" % (rd, wr, hex(got) if got is not None else "nothing", want))
        # failed wait: nothing reported
        waits = [el for el in f.calls() if callee_name(el.e) in ("epoll_wait", "epoll_pwait2", "poll", "select")]
        for w in waits:
            nb = f.blocks[w.bid]
            st = nb.elems[w.idx + 1] if w.idx + 1 < len(nb.elems) else None
            if st is None or st.e[0] != "asg" or not is_e(strip(st.e[2]), "var"):
                r.brk("%s: wait result is not stored" % name)
                continue
            rv = strip(st.e[2])[1]
            for err in (4, 9):      # EINTR, EBADF
                env = {rv: -1, nkey(["deref", ["call", ["fn", "__errno_location"], []]]): err, nkey(["fld", ["var", "base", "param"], "event_base.th_base_lock", "->"]): 0,
                       "event_debug_logging_mask_": 0}
                def hook(el, e_):
                    if callee_name(el.e) == "__errno_location":
                        return 1
                    return None
                outs = run_all(f, (w.bid, w.idx + 2), env, lambda el: el is a, P, hook, max_steps=600)
                for o in outs:
                    if o.kind == "exit" and o.why == "noreturn":
                        continue
                    ret = None
                    if o.kind == "ret":
                        try:
                            ret = evalx(normx(o.at.e[1]), o.env, P)
                        except EvalError:
                            ret = None
                    r.inst((name, "fail", err, o.kind), {"fn": name, "wait": w.where(), "errno": err, "ends": o.kind, "ret": ret})
                    if o.kind == "stop":
                        r.bad("K3:%s:report-after-failed-wait" % name, w.where(), name, "after a failed wait (errno %d) events are still reported from a stale result array" % err)
                    elif o.kind == "ret" and ret is not None and ret != (0 if err == 4 else -1):
                        r.bad("K6:%s:wait-failure-result" % name, w.where(), name, "wait failed with errno %d: returns %s, documented %d" % (err, ret, 0 if err == 4 else -1))
    return r


def rule_del(P):
    r = Rule("C04-del", "K6", "after event_del_nolock_ the event is on no active queue (no callback after del in the loop thread)", floor=40)
    M = Machine(P)
    n = 0
    for fl in range(256):
        if not fl & L["INIT"] or fl & L["SIGNAL"] or (fl & L["ACTIVE"] and fl & L["ACTIVE_LATER"]) or fl & L["FINALIZING"]:
            continue
        for blocking in (0, 1, 2):
            st = {"flags": fl, "res": R_, "events": R_ | P_, "count": 50, "active": 20}
            for o in M.evaluate("event_del_nolock_", st, {"blocking": blocking}):
                if o["unknown"]:
                    r.brk(o["unknown"])
                    return r
                after = o["st"]["flags"]
                r.inst((fl, blocking, o["choices"]), {"flags": hex(fl), "after": hex(after)})
                if after & (L["ACTIVE"] | L["ACTIVE_LATER"] | L["INSERTED"] | L["TIMEOUT"]) and n < 2:
                    n += 1
                    f = P.fn("event_del_nolock_")
                    r.bad("K6:event_del_nolock_:still-queued", "%s:%d" % (f.file, f.line), f.name, "from flags %#x the event is still on a queue (%#x) after event_del: its callback can run after the delete" % (fl, after))
    return r


def rule_changelist(P):
    """the changelist (evmap.c / epoll-changelist): what the backend is finally asked equals the last request for the fd; C05's table (engine/props/C05.py: rule_changelist) is reused, since a
    change that is dropped or cancelled there makes the backend report readiness nobody asked for, or none where it was asked - this property."""
    from . import C05
    r = C05.rule_changelist(P)
    r.id = "C04-changelist"
    return r


def rule_evmap(P):
    """the per-descriptor bookkeeping in front of the backends (evmap_io_add_ / evmap_io_del_): the backend is told exactly on the 0 <-> 1 transitions of a condition's count, and a
    backend call that fails leaves the counts as they were - otherwise later adds for the condition never reach the backend, and it reports nothing for an event that was asked for.
    C05's decision table (engine/props/C05.py: rule_evmap) reused."""
    from . import C05
    r = C05.rule_evmap(P)
    r.id = "C04-evmap"
    return r


def run(ctx, config):
    P = ctx.prog(UNITS, config)
    return [rule_active(P), rule_maps(P), rule_del(P), rule_changelist(P), rule_evmap(P)]
