"""C06 — the epoll change table yields the intended kernel operation for every case.

Decided completely (K6 TABLE): the 512-entry table, the index expression, the errno fall-backs and the
use site are extracted from the parsed program and compared with a six-line model of epoll_ctl on the
whole finite domain.
"""
from ..core import Rule
from ..prog import *
from ..facts import AnalysisBroken

UNITS = ["epoll"]
LEVEL = "proof"
EXHAUSTIVE = True
EXPLANATION = ("K6 TABLE: epoll_op_table (512 {events,op} rows), the EPOLL_OP_TABLE_INDEX expression tree, the errno "
               "fall-back switch of epoll_apply_one_change and the table's use site are extracted from clang's AST/CFG of "
               "epoll.c and checked against a model of epoll_ctl for all 8x4x4x4 (old, read, write, close) combinations: "
               "index bijection, impossible rows inert, resulting registration == (old + adds) - dels, op accepted without "
               "fall-back on consistent rows, no-change rows {0,0}; plus structural obligations on the reader "
               "(one index for both fields, events==0 returns before epoll_ctl, ET added iff a change carries EV_CHANGE_ET, "
               "epoll_ctl receives exactly op/events).  Decides the table and its reader; does not execute epoll.")
TRUSTED = ["clang 14 parser/AST/CFG and constant folding", "tools/lvx.cc", "engine/prog.py",
           "kernel model in engine/props/C06.py: ADD on empty / MOD on non-empty / DEL on non-empty succeed; "
           "ADD on non-empty=EEXIST, MOD/DEL on empty=ENOENT"]
ASSUMPTIONS = ["the kernel registration of an fd equals old_events when the change is applied (C05's invariant)",
               "Linux epoll_ctl semantics as modelled"]
CONFIGS = ["build", "assert", "nodebug"]

EV_READ, EV_WRITE, EV_CLOSED = 2, 4, 0x80
ADD, DEL = 1, 2


def evalx(e, env):
    """Evaluate a pure integer expression tree; leaves are looked up in env by key()."""
    e = strip(e)
    k = key(e)
    if k in env:
        return env[k]
    if e[0] == "int":
        return e[1]
    if e[0] == "bin":
        a, b = evalx(e[2], env), evalx(e[3], env)
        op = e[1]
        if op == "&": return a & b
        if op == "|": return a | b
        if op == "^": return a ^ b
        if op == "<<": return a << b
        if op == ">>": return a >> b
        if op == "+": return a + b
        if op == "-": return a - b
        if op == "*": return a * b
        raise AnalysisBroken("evalx: operator %s" % op)
    if e[0] == "un" and e[1] == "~":
        return ~evalx(e[2], env)
    raise AnalysisBroken("evalx: unsupported node %s in %s" % (e[0], show(e)))


def eval_index(P, index_expr, env, fields):
    """the table index for one change: the macro's expression, or - when the index is computed by a helper function - that function evaluated (typed: narrow temporaries truncate) on a
    change with the given field values"""
    ix = strip(index_expr)
    if is_e(ix, "call") and callee_name(ix) in P.fns:
        from ..interp import run_all, normx, nkey
        from .. import prog as PG
        g = P.fns[callee_name(ix)]
        pv = ["var", g.params[0][0], "param"]
        e2 = {"#typed": 1, g.params[0][0]: 1}
        for fl, v in fields.items():
            e2[nkey(["fld", pv, "event_change." + fl, "->"])] = v
        vals = set()
        for o in run_all(g, (g.entry, 0), e2, lambda el: False, P, lambda el, e_: None, max_steps=400):
            if o.kind == "exit" and o.why == "noreturn":
                continue
            if o.kind != "ret":
                raise AnalysisBroken("index helper %s: %s %s" % (g.name, o.kind, o.why))
            try:
                vals.add(PG.tevalx(normx(o.at.e[1]), o.env, P, g))
            except PG.EvalError as ex:
                raise AnalysisBroken("index helper %s: %s" % (g.name, ex))
        if len(vals) != 1:
            raise AnalysisBroken("index helper %s: %d values" % (g.name, len(vals)))
        return vals.pop()
    return evalx(index_expr, env)


def run(ctx, config):
    P = ctx.prog(UNITS, config)
    rules = []
    EPOLLIN, EPOLLOUT, EPOLLRDHUP, EPOLLET = 1, 4, 0x2000, 1 << 31
    CTL_ADD, CTL_DEL, CTL_MOD = 1, 2, 3

    # ---- table extraction
    g = P.global_("epoll_op_table")
    init = g.get("init")
    if not init or init[0] != "ainit":
        raise AnalysisBroken("epoll_op_table has no array initialiser")
    table = []
    for row in init[1]:
        if row[0] != "sinit":
            raise AnalysisBroken("epoll_op_table row is not a struct initialiser")
        d = {f: v for f, v in row[2]}
        ev, op = strip(d["operation.events"]), strip(d["operation.op"])
        if ev[0] != "int" or op[0] != "int":
            raise AnalysisBroken("epoll_op_table row is not constant")
        table.append((ev[1] & 0xffffffff, op[1], ev[2], op[2]))
    fn = P.fn("epoll_apply_one_change")

    # ---- reader: idx store, op/events loads
    r_use = Rule("C06-use", "K6", "reader of epoll_op_table uses one index for op and events, returns before epoll_ctl "
                 "when events==0, adds EPOLLET iff a change has EV_CHANGE_ET, passes op/events unchanged", floor=6)
    idx_stores = [(el, rhs) for el, lhs, op, rhs in fn.stores() if eq(lhs, ["var", "idx", "local"])]
    index_expr = None
    if len(idx_stores) != 1:
        r_use.brk("expected exactly one store to the table index, found %d" % len(idx_stores))
    else:
        index_expr = idx_stores[0][1]
        r_use.inst("idx-store", {"site": idx_stores[0][0].where(), "index": show(index_expr)})
    loads = {}
    for el, lhs, op, rhs in fn.stores():
        rr = strip(rhs)
        if is_e(rr, "fld") and is_e(strip(rr[1]), "idx") and eq(strip(rr[1])[1], ["var", "epoll_op_table", "global"]):
            loads[rr[2]] = (el, lhs, strip(rr[1])[2])
    if set(loads) != {"operation.op", "operation.events"}:
        r_use.brk("expected loads of .op and .events from epoll_op_table, found %s" % sorted(loads))
    else:
        i_op, i_ev = loads["operation.op"][2], loads["operation.events"][2]
        r_use.inst("same-index", {"op_index": show(i_op), "events_index": show(i_ev)})
        if not eq(i_op, i_ev):
            r_use.bad("K6:epoll_apply_one_change:op-and-events-index-differ", loads["operation.op"][0].where(), fn.name,
                      "op is read at [%s] but events at [%s]" % (show(i_op), show(i_ev)))
        elif idx_stores and not eq(i_op, ["var", "idx", "local"]) and not eq(i_op, index_expr or []):
            r_use.bad("K6:epoll_apply_one_change:index-not-from-macro", loads["operation.op"][0].where(), fn.name,
                      "table is indexed by %s, not by the EPOLL_OP_TABLE_INDEX value" % show(i_op))
        opvar, evvar = loads["operation.op"][1], loads["operation.events"][1]
        # stores to op / events variables after the loads
        ctl = list(fn.calls("epoll_ctl"))
        if len(ctl) < 3:
            r_use.brk("expected >=3 epoll_ctl calls (primary + 2 fall-backs), found %d" % len(ctl))
        # primary call: its op argument is the op variable
        prim = [c for c in ctl if eq(c.e[2][1], opvar)]
        if len(prim) != 1:
            r_use.brk("cannot identify the primary epoll_ctl call (op argument == table op)")
        else:
            pc = prim[0]
            r_use.inst("primary-op", {"site": pc.where(), "call": show(pc.e)})
            # every epoll_ctl dominated by events != 0
            for c in ctl:
                gs = fn.guards_at(c.bid)
                ok = False
                for cond, truth, b in gs:
                    cnd, t = negate_truth(cond, truth)
                    if eq(cnd, evvar) and t:
                        ok = True
                r_use.inst(("nonzero", c.line), {"site": c.where(), "guard": "events != 0 dominates epoll_ctl"})
                if not ok:
                    r_use.bad("K6:epoll_apply_one_change:epoll_ctl-without-events-test", c.where(), fn.name,
                              "epoll_ctl is reachable with events == 0 (inert rows must not reach the kernel)")
            # the events handed to the kernel: &epev with epev.events = events (+ET)
            ev_field_stores = [(el, rhs) for el, lhs, op, rhs in fn.stores()
                               if is_e(strip(lhs), "fld") and strip(lhs)[2] == "epoll_event.events"]
            if len(ev_field_stores) != 1 or not eq(ev_field_stores[0][1], evvar):
                r_use.bad("K6:epoll_apply_one_change:epev.events-not-table-events", fn.file + ":%d" % fn.line, fn.name,
                          "epev.events is not assigned exactly once from the table's events value")
            else:
                r_use.inst("epev", {"site": ev_field_stores[0][0].where(), "store": show(ev_field_stores[0][0].e)})
                if not fn.pos_dominates(ev_field_stores[0][0].pos(), pc.pos()):
                    r_use.bad("K6:epoll_apply_one_change:epev.events-after-ctl", ev_field_stores[0][0].where(), fn.name,
                              "epev.events is stored after the primary epoll_ctl")
            # other stores to events/op: only `events |= EPOLLET` under the ET test
            for el, lhs, op, rhs in fn.stores():
                if eq(lhs, evvar) and el is not loads["operation.events"][0]:
                    if el.e[0] == "decl":
                        continue
                    rr = strip(rhs)
                    good = op == "|=" and is_e(rr, "int") and (rr[1] & 0xffffffff) == EPOLLET
                    # the ET test, in whatever shape it is written (one test of the three bytes or-ed together, three tests joined by ||, nested ifs ...): the store is reachable only
                    # through the "bit set" edge of a test of (a change byte & EV_CHANGE_ET), all three bytes are tested, and from every such edge the store is passed before epoll_ctl
                    ALLF = {"event_change.read_change", "event_change.write_change", "event_change.close_change"}
                    tested, true_edges = set(), set()
                    for b in fn.branch_blocks():
                        c2, t2 = negate_truth(b.term["cond"], True)
                        c2 = strip(c2)
                        if is_e(c2, "bin") and c2[1] == "&" and is_e(strip(c2[3]), "int") and strip(c2[3])[1] == 0x20:
                            flds = set(s_[2] for s_ in walk(c2[2]) if is_e(s_, "fld"))
                            if flds and flds <= ALLF:
                                tested |= flds
                                lab = "T" if t2 else "F"
                                true_edges |= set((b.id, s_) for s_, l_ in b.succ if l_ == lab)
                    only_via = el.bid not in fn.reach_blocks(fn.entry, avoid_edges=true_edges)
                    always_then = all(fn.path_avoiding((s_, -1), lambda x: x is pc, lambda x: x is el) is None for _, s_ in true_edges)
                    et_guard = tested == ALLF and bool(true_edges) and only_via and always_then
                    r_use.inst("et", {"site": el.where(), "store": show(el.e), "guarded_by_EV_CHANGE_ET_of_all_three": et_guard})
                    if not (good and et_guard):
                        r_use.bad("K6:epoll_apply_one_change:events-modified", el.where(), fn.name,
                                  "table events modified by `%s` (only `|= EPOLLET` under the EV_CHANGE_ET test of all three changes is allowed)" % show(el.e))
                if eq(lhs, opvar) and el is not loads["operation.op"][0] and el.e[0] != "decl":
                    r_use.bad("K6:epoll_apply_one_change:op-modified", el.where(), fn.name, "table op modified by `%s`" % show(el.e))
    rules.append(r_use)

    # ---- fall-backs from the errno switch
    r_fb = Rule("C06-fallback", "K6", "errno fall-backs: MOD+ENOENT->ADD, ADD+EEXIST->MOD, DEL tolerates ENOENT/EBADF/EPERM", floor=3)
    fallback = {}   # op -> {errno: ("retry", op2) | ("ok",)}
    ENOENT, EEXIST, EBADF, EPERM = 2, 17, 9, 1
    sw = [b for b in fn.blocks.values() if b.term and b.term["k"] == "switch"]
    if len(sw) != 1:
        r_fb.brk("expected one switch in epoll_apply_one_change, found %d" % len(sw))
    else:
        swb = sw[0]
        for s, _ in swb.succ:
            cb = fn.blocks[s]
            if not cb.label or cb.label[0] != "case":
                continue
            opv = cb.label[1]
            region = [b for b in fn.blocks if fn.dominates(s, b)]
            for b in region:
                blk = fn.blocks[b]
                if not blk.term or "cond" not in blk.term:
                    continue
                c = strip(blk.term["cond"])
                if is_e(c, "bin") and c[1] == "==" and "__errno_location" in show(c[2]) and is_e(strip(c[3]), "int"):
                    en = strip(c[3])[1]
                    t = [x for x, l in blk.succ if l == "T"]
                    if not t:
                        continue
                    tregion = [x for x in fn.blocks if fn.dominates(t[0], x)]
                    act = None
                    for x in tregion:
                        for el in fn.blocks[x].elems:
                            if el.e[0] == "call" and callee_name(el.e) == "epoll_ctl":
                                a1 = strip(el.e[2][1])
                                if is_e(a1, "int"):
                                    act = ("retry", a1[1])
                    if act is None:
                        for x in tregion:
                            for el in fn.blocks[x].elems:
                                if el.e[0] == "ret" and is_e(strip(el.e[1]), "int") and strip(el.e[1])[1] == 0:
                                    act = ("ok",)
                    if act:
                        fallback.setdefault(opv, {})[en] = act
        want = {CTL_MOD: {ENOENT: ("retry", CTL_ADD)}, CTL_ADD: {EEXIST: ("retry", CTL_MOD)},
                CTL_DEL: {ENOENT: ("ok",), EBADF: ("ok",), EPERM: ("ok",)}}
        for opv, m in want.items():
            r_fb.inst(("fb", opv), {"op": opv, "extracted": {str(k): list(v) for k, v in fallback.get(opv, {}).items()}})
            for en, act in m.items():
                if fallback.get(opv, {}).get(en) != act:
                    r_fb.bad("K6:epoll_apply_one_change:fallback-op%d-errno%d" % (opv, en), fn.file + ":%d" % swb.term["loc"][0], fn.name,
                             "fall-back for op %d on errno %d is %s, model needs %s" % (opv, en, fallback.get(opv, {}).get(en), act))
    rules.append(r_fb)

    # ---- the table against the model, on the whole domain
    r_tab = Rule("C06-table", "K6", "epoll_op_table equals the reference model on all 512 (old,read,write,close) combinations", floor=512)
    r_tab.obligations = 0
    r_tab.discharged = 0
    if len(table) != 512:
        r_tab.brk("table has %d rows, expected 512" % len(table))
    elif index_expr is None:
        r_tab.brk("no index expression")
    else:
        seen = {}
        ch = ["var", "ch", "param"]
        def fk(f):
            return key(["fld", ch, "event_change." + f, "->"])
        FLAG = {EV_READ: EPOLLIN, EV_WRITE: EPOLLOUT, EV_CLOSED: EPOLLRDHUP}
        n_incons = 0
        for old_bits in range(8):
            old = (EV_READ if old_bits & 1 else 0) | (EV_WRITE if old_bits & 2 else 0) | (EV_CLOSED if old_bits & 4 else 0)
            for rc in range(4):
                for wc in range(4):
                    for cc in range(4):
                        # extra (ET-like) bits in the change bytes must not disturb the index
                        idxs = set()
                        for extra in (0, 0x20, 0xf0 & ~3):
                            env = {fk("read_change"): rc | (extra & ~3), fk("write_change"): wc | (extra & ~3),
                                   fk("close_change"): cc | (extra & ~3), fk("old_events"): old}
                            idxs.add(eval_index(P, index_expr, env, {"read_change": rc | (extra & ~3), "write_change": wc | (extra & ~3), "close_change": cc | (extra & ~3), "old_events": old}))
                        r_tab.obligations += 1
                        combo = "old=%#x read=%d write=%d close=%d" % (old, rc, wc, cc)
                        if len(idxs) != 1:
                            r_tab.bad("K6:epoll_op_table:index-depends-on-flag-bits:" + combo, g["file"] + ":%d" % g["line"], "EPOLL_OP_TABLE_INDEX",
                                      "index depends on bits outside ADD|DEL for " + combo)
                            continue
                        i = idxs.pop()
                        if not (0 <= i < 512) or i in seen:
                            r_tab.bad("K6:epoll_op_table:index-not-bijective:" + combo, g["file"] + ":%d" % g["line"], "EPOLL_OP_TABLE_INDEX",
                                      "index %d for %s is out of range or collides with %s" % (i, combo, seen.get(i)))
                            continue
                        seen[i] = combo
                        ev, op, evs, ops = table[i]
                        changes = {EV_READ: rc, EV_WRITE: wc, EV_CLOSED: cc}
                        r_tab.inst(i, {"row": i, "combo": combo, "events": evs, "op": ops} if i in (0, 5, 77, 300, 511) else None)
                        msg = None
                        if any(c == (ADD | DEL) for c in changes.values()):
                            if ev != 0:
                                msg = "impossible row (add+del) must have events == 0, has %#x" % ev
                        elif all(c == 0 for c in changes.values()):
                            if ev != 0 or op != 0:
                                msg = "no-change row must be {0,0}, is {%#x,%d}" % (ev, op)
                        else:
                            desired = 0
                            for bit, c in changes.items():
                                if c == ADD or (c == 0 and old & bit):
                                    desired |= FLAG[bit]
                            reg = 0
                            for bit in FLAG:
                                if old & bit:
                                    reg |= FLAG[bit]
                            consistent = all(not (c == DEL and not (old & bit)) for bit, c in changes.items())
                            if not consistent:
                                n_incons += 1
                            if ev == 0:
                                msg = "row with a change is inert (events == 0): the change would never reach the kernel"
                            else:
                                # apply (op, ev) with the extracted fall-backs
                                def apply(o, reg):
                                    if o == CTL_ADD:
                                        return (ev, None) if reg == 0 else (None, EEXIST)
                                    if o == CTL_MOD:
                                        return (ev, None) if reg != 0 else (None, ENOENT)
                                    if o == CTL_DEL:
                                        return (0, None) if reg != 0 else (None, ENOENT)
                                    return (None, -1)
                                res, err = apply(op, reg)
                                used_fb = False
                                if err is not None:
                                    act = fallback.get(op, {}).get(err)
                                    used_fb = True
                                    if act is None:
                                        res = None
                                    elif act[0] == "ok":
                                        res = reg
                                    else:
                                        res, err2 = apply(act[1], reg)
                                if res is None:
                                    msg = "op %d with events %#x fails on a registration holding %#x and no fall-back repairs it" % (op, ev, reg)
                                elif res != desired:
                                    msg = "kernel registration becomes %#x, intended (old+adds-dels) is %#x" % (res, desired)
                                elif consistent and used_fb:
                                    msg = "consistent row needs an errno fall-back: op %d is not the operation the kernel accepts (old=%#x desired=%#x)" % (op, reg, desired)
                                elif consistent:
                                    want_op = CTL_ADD if reg == 0 else (CTL_MOD if desired else CTL_DEL)
                                    if op != want_op:
                                        msg = "op is %d, expected %d" % (op, want_op)
                        if msg:
                            r_tab.bad("K6:epoll_op_table:row:" + combo, g["file"] + ":%d" % g["line"], "epoll_op_table",
                                      "row %d (%s) = {%s, %s}: %s" % (i, combo, evs, ops, msg))
                        else:
                            r_tab.discharged += 1
        r_tab.notes.append("inconsistent rows (a del of an absent condition): %d" % n_incons)
    rules.append(r_tab)
    for r in (r_use, r_fb):
        r.obligations = r.instances
        r.discharged = r.instances - len(r.findings) if not r.broken else 0
    return rules
