"""C05 — the OS interest set equals the union of added events: bookkeeping shape, decided by exhaustive evaluation of the extracted add/del code (K6), twins (K7), ordering (K3), slots (K10)."""
from ..core import Rule
from ..prog import *
from ..facts import AnalysisBroken
from ..interp import normx, nkey, run_all

UNITS = ["evmap", "epoll", "poll", "select", "event"]
LEVEL = "other"
CONFIGS = ["build", "assert"]
EXPLANATION = (
    "The chain event_add/del -> evmap_io_add_/del_ -> backend add/del slot -> kernel is checked link by link on the extracted code. "
    "I1: evmap_io_add_/evmap_io_del_ are evaluated on every combination of the three per-fd counters in {0,1,2} x the event's READ/WRITE/CLOSED/ET bits x "
    "backend success/failure: `old` must name exactly the conditions with a non-zero counter, the backend slot must be called exactly when a condition "
    "makes its 0<->1 transition, with exactly those conditions plus the event's ET bit, counters and return value must follow, and a failed backend add "
    "commits nothing. I2: event_changelist_add_/del_ on every old_events x requested conditions x prior change state: an add overwrites its channels with "
    "ADD|ET, a del cancels (0) exactly when old_events lacks the condition and is DEL|ET otherwise, other channels untouched. I3: every backend add/del "
    "pair: epoll_nochangelist_add/del build the change record per channel; poll_add/poll_del set/clear exactly the requested POLL* bits and free the slot "
    "only when no bit is left; select_add/select_del set/clear exactly the requested sets, the highest-fd bound only ever covers more, and the read/write "
    "set channels are used symmetrically in every function of select.c. I4: epoll_dispatch applies the change list and clears it before the wait on every "
    "path. I5: every eventop in eventops[] has add/del/dispatch/init. I6: in epoll_apply_one_change a non-inert table row always reaches epoll_ctl "
    "(no path skips the system call). Declined: equality with the kernel's state over add/del/close/reopen histories.")
ASSUMPTIONS = ["per-fd counters stay below 0xffff (the overflow rejection is evaluated separately)", "the backend slot returns 0 or -1"]

R_, W_, S_, ET_, C_ = 0x02, 0x04, 0x08, 0x20, 0x80
CH = {"nread": R_, "nwrite": W_, "nclose": C_}


def rule_evmap(P):
    r = Rule("C05-evmap", "K6", "evmap_io_add_/del_: old, transition set, backend call, counters and return value on every combination", floor=800)
    for name, slot, delta in (("evmap_io_add_", "eventop.add", 1), ("evmap_io_del_", "eventop.del", -1)):
        f = P.fn(name)
        ev = ["var", f.params[2][0], "param"]
        fdn = f.params[1][0]
        nbad = 0
        ckey = {c: nkey(["fld", ["var", "ctx", "local"], "evmap_io." + c, "->"]) for c in CH}
        for nr in (0, 1, 2):
            for nw in (0, 1, 2):
                for nc in (0, 1, 2):
                    for evbits in [a | b | c | d for a in (0, R_) for b in (0, W_) for c in (0, C_) for d in (0, ET_)]:
                        if delta < 0 and ((evbits & R_ and not nr) or (evbits & W_ and not nw) or (evbits & C_ and not nc)):
                            continue   # deleting an event that was never counted: outside the precondition (asserted by libevent)
                        env = {fdn: 5, ev[1]: 1, nkey(["fld", ev, "event.ev_events", "->"]): evbits, nkey(["fld", ev, "event.ev_fd", "->"]): 5,
                               ckey["nread"]: nr, ckey["nwrite"]: nw, ckey["nclose"]: nc, "event_debug_mode_on_": 0,
                               nkey(["fld", ["var", "io", "local"], "event_signal_map.nentries", "->"]): 100}
                        def hook(el, e_):
                            if callee_slot(el.e) == slot:
                                try:
                                    o_ = evalx(normx(el.e[2][2]), e_, P)
                                    w_ = evalx(normx(el.e[2][3]), e_, P)
                                except EvalError:
                                    return "impure"
                                return [(0, {"#be": (o_, w_, 0)}), (-1, {"#be": (o_, w_, -1)})]
                            if callee_name(el.e) == "evmap_make_space":
                                return 0
                            return None
                        for o in run_all(f, (f.entry, 0), env, lambda el: False, P, hook, max_steps=1200):
                            if o.kind == "exit" and o.why == "noreturn":
                                continue
                            if o.kind != "ret":
                                r.brk("%s: evaluation ended as %s (%s)" % (name, o.kind, o.why))
                                return r
                            try:
                                ret = evalx(normx(o.at.e[1]), o.env, P)
                            except EvalError:
                                ret = None
                            if ret == -1 and "#be" not in o.env:
                                continue    # allocation failure of the slot: nothing to compare (C14-style atomicity is checked below through counters)
                            cnt = {"nread": nr, "nwrite": nw, "nclose": nc}
                            old = sum(b for c, b in CH.items() if cnt[c])
                            trans = 0
                            new = dict(cnt)
                            for c, b in CH.items():
                                if evbits & b:
                                    new[c] = cnt[c] + delta
                                    if (delta > 0 and new[c] == 1) or (delta < 0 and new[c] == 0):
                                        trans |= b
                            be = o.env.get("#be")
                            got_cnt = {c: o.env.get(ckey[c]) for c in CH}
                            if trans:
                                want_be = (old, (evbits & ET_) | trans)
                                if be is None:
                                    exp_ok = False
                                    why = "the backend is not told about the transition %#x" % trans
                                else:
                                    fail = be[2] == -1
                                    if delta > 0:
                                        want_ret, want_cnt = (-1, cnt) if fail else (1, new)
                                    else:
                                        want_ret, want_cnt = (-1 if fail else 1, new)
                                    exp_ok = be[:2] == want_be and ret == want_ret and got_cnt == want_cnt
                                    why = "backend called with (old=%#x, events=%#x) want (%#x, %#x); returns %s want %s; counters %s want %s" % (
                                        be[0], be[1], want_be[0], want_be[1], ret, want_ret, got_cnt, want_cnt)
                            else:
                                exp_ok = be is None and ret == 0 and got_cnt == new
                                why = "no 0<->1 transition: backend %s, returns %s, counters %s want %s" % ("called" if be else "not called", ret, got_cnt, new)
                            r.inst((name, nr, nw, nc, evbits, be), {"fn": name, "counters": [nr, nw, nc], "ev_events": hex(evbits), "backend": list(be) if be else None, "ret": ret, "after": got_cnt})
                            if not exp_ok and nbad < 3:
                                nbad += 1
                                r.bad("K6:%s:bookkeeping" % name, "%s:%d" % (f.file, f.line), name, "counters (r,w,c)=(%d,%d,%d), ev_events=%#x: %s" % (nr, nw, nc, evbits, why))
    return r


CHG = {"read_change": R_ | S_, "write_change": W_, "close_change": C_}
ADD, DEL = 1, 2


def rule_changelist(P):
    r = Rule("C05-changelist", "K6", "event_changelist_add_/del_: per-channel change values on every combination", floor=300)
    for name in ("event_changelist_add_", "event_changelist_del_"):
        f = P.fn(name)
        oldp, evp = f.params[2][0], f.params[3][0]
        ch = ["var", "change", "local"]
        k = {c: nkey(["fld", ch, "event_change." + c, "->"]) for c in CHG}
        kold = nkey(["fld", ch, "event_change.old_events", "->"])
        nbad = 0
        for old in [a | b | c for a in (0, R_) for b in (0, W_) for c in (0, C_)]:
            for evbits in [a | b | c | d for a in (0, R_) for b in (0, W_) for c in (0, C_) for d in (0, ET_)]:
                for prior in (0, ADD, DEL, DEL | ET_, ADD | ET_):
                    env = {oldp: old, evp: evbits, kold: old, k["read_change"]: prior, k["write_change"]: prior, k["close_change"]: prior, "change": 1}
                    def hook(el, e_):
                        if callee_name(el.e) == "event_changelist_get_or_construct":
                            return 1
                        return None
                    for o in run_all(f, (f.entry, 0), env, lambda el: False, P, hook, max_steps=600):
                        if o.kind == "exit" and o.why == "noreturn":
                            continue
                        if o.kind != "ret":
                            r.brk("%s: evaluation ended as %s (%s)" % (name, o.kind, o.why))
                            return r
                        got = {c: o.env.get(k[c]) for c in CHG}
                        want = {}
                        for c, bits in CHG.items():
                            if evbits & bits:
                                if name.endswith("add_"):
                                    want[c] = ADD | (evbits & (ET_ | 0x10 | S_))
                                else:
                                    want[c] = (DEL | (evbits & ET_)) if old & bits else 0
                            else:
                                want[c] = prior
                        r.inst((name, old, evbits, prior), {"fn": name, "old_events": hex(old), "events": hex(evbits), "prior": prior, "after": got})
                        if got != want and nbad < 3:
                            nbad += 1
                            r.bad("K6:%s:channel-values" % name, "%s:%d" % (f.file, f.line), name, "old_events=%#x events=%#x prior change %#x: changes become %s, documented %s" % (old, evbits, prior, got, want))
    return r


def _channel_counts(f, names):
    cnt = {n: 0 for n in names}
    for b in f.blocks.values():
        srcs = [el.e for el in b.elems if el.e[0] != "call" or True]
        if b.term and b.term.get("cond") is not None:
            srcs.append(b.term["cond"])
        seen = set()
        for s in srcs:
            for q in walk(s):
                if is_e(q, "fld") and q[2] in names:
                    k_ = (id(q))
                    cnt[q[2]] += 1
    return cnt


def rule_backends(P):
    r = Rule("C05-backends", "K6/K7", "backend add/del twins: epoll change record, poll bits and slot release, select sets, bound and channel symmetry", floor=80)
    # ---- epoll_nochangelist_add/del: evaluate the record handed to epoll_apply_one_change (through static helpers, if any)
    slots = P.slots()
    plain = {"add": [n for n in slots.get("eventop.add", ()) if n.startswith("epoll_") and "changelist" in n and n != "event_changelist_add_"],
             "del": [n for n in slots.get("eventop.del", ()) if n.startswith("epoll_") and "changelist" in n and n != "event_changelist_del_"]}
    epfile = set(x.name for x in P.fns_in("epoll.c"))

    def rec_hook(depth):
        def hook(el, e_):
            n = callee_name(el.e)
            if n == "epoll_apply_one_change":
                a = strip(el.e[2][2])
                tgt = strip(a[1]) if is_e(a, "addr") else None
                if tgt is None:
                    return "impure"
                rec = {}
                for c_ in ("read_change", "write_change", "close_change", "old_events", "fd"):
                    rec[c_] = e_.get(nkey(["fld", tgt, "event_change." + c_, "."]))
                e_["#rec"] = tuple(sorted(rec.items()))
                return 0
            if n in epfile and depth < 3 and P.has(n):
                g = P.fn(n)
                env2 = {}
                for (pn, pt), a in zip(g.params, el.e[2]):
                    try:
                        env2[pn] = evalx(normx(a), e_, P)
                    except EvalError:
                        env2[pn] = 1 if "*" in pt else None
                        if env2[pn] is None:
                            del env2[pn]
                alts = []
                for o in run_all(g, (g.entry, 0), env2, lambda x: False, P, rec_hook(depth + 1)):
                    if o.kind == "unknown":
                        return "impure"
                    rv = None
                    if o.kind == "ret" and len(o.at.e) > 1 and o.at.e[1]:
                        try:
                            rv = evalx(normx(o.at.e[1]), o.env, P)
                        except EvalError:
                            rv = None
                    alts.append((rv, {"#rec": o.env.get("#rec")}))
                return alts or None
            return None
        return hook

    for kind_name, kind in (("add", ADD), ("del", DEL)):
        if len(plain[kind_name]) != 1:
            r.brk("plain epoll %s slot function not identified: %s" % (kind_name, plain[kind_name]))
            continue
        name = plain[kind_name][0]
        f = P.fn(name)
        oldp, evp = f.params[2][0], f.params[3][0]
        nbad = 0
        for old in (0, R_, R_ | W_ | C_):
            for evbits in [a | b | c | d for a in (0, R_) for b in (0, W_) for c in (0, C_) for d in (0, ET_)]:
                env = {f.params[0][0]: 1, f.params[1][0]: 7, oldp: old, evp: evbits}
                for o in run_all(f, (f.entry, 0), env, lambda el: False, P, rec_hook(0)):
                    if o.kind == "unknown":
                        r.brk("%s: %s" % (name, o.why))
                        return r
                    rec = o.env.get("#rec")
                    if rec is None:
                        r.brk("%s: does not reach epoll_apply_one_change" % name)
                        return r
                    got = dict(rec)
                    want = {"read_change": (kind | (evbits & ET_)) if evbits & R_ else 0, "write_change": (kind | (evbits & ET_)) if evbits & W_ else 0,
                            "close_change": (kind | (evbits & ET_)) if evbits & C_ else 0, "old_events": old, "fd": 7}
                    r.inst((name, old, evbits), {"fn": name, "old": hex(old), "events": hex(evbits), "record": got})
                    if got != want and nbad < 2:
                        nbad += 1
                        r.bad("K6:%s:change-record" % name, "%s:%d" % (f.file, f.line), name, "old=%#x events=%#x: record %s, expected %s (each requested channel carries %s plus the ET bit of the request)" % (old, evbits, got, want, "ADD" if kind == ADD else "DEL"))
    # ---- poll_add / poll_del
    POLL = {R_: 0x001, W_: 0x004, C_: 0x2000}
    for name in ("poll_add", "poll_del"):
        f = P.fn(name)
        evp = f.params[3][0]
        pfd = ["var", "pfd", "local"]
        kev = nkey(["fld", pfd, "pollfd.events", "->"])
        kidx = nkey(["fld", ["var", "idx", "local"], "pollidx.idxplus1", "->"])
        pop = ["var", "pop", "local"]
        knfds = nkey(["fld", pop, "pollop.nfds", "->"])
        nbad = 0
        for have in ((0, 0x001, 0x005, 0x2005) if name == "poll_add" else (0x001, 0x005, 0x2005, 0x2004)):
            for evbits in [a | b | c for a in (0, R_) for b in (0, W_) for c in (0, C_)]:
                if not evbits:
                    continue
                exists = 1 if (have or name == "poll_del") else 0
                env = {f.params[1][0]: 9, evp: evbits, kev: have, kidx: 3 if exists else 0, knfds: 4 if name == "poll_add" else 3, nkey(["fld", pop, "pollop.event_count", "->"]): 64, "pfd": 1}
                hook = lambda el, e_: None
                for o in run_all(f, (f.entry, 0), env, lambda el: False, P, hook, max_steps=800):
                    if o.kind == "exit" and o.why == "noreturn":
                        continue
                    if o.kind != "ret":
                        r.brk("%s: %s %s" % (name, o.kind, o.why))
                        return r
                    got = o.env.get(kev)
                    req = sum(v for b, v in POLL.items() if evbits & b)
                    if name == "poll_add":
                        want = (have if exists else 0) | req
                        ok = got == want
                        msg = "pollfd.events becomes %#x, expected %#x" % (got if got is not None else -1, want)
                    else:
                        want = have & ~req
                        freed = o.env.get(kidx) == 0
                        ok = got == want and (freed == (want == 0))
                        msg = "pollfd.events becomes %#x (expected %#x), slot %s (must be released exactly when no condition is left)" % (got if got is not None else -1, want, "released" if freed else "kept")
                    r.inst((name, have, evbits), {"fn": name, "pollfd_events_before": hex(have), "requested": hex(evbits), "after": hex(got) if got is not None else None})
                    if not ok and nbad < 2:
                        nbad += 1
                        r.bad("K6:%s:poll-bits" % name, "%s:%d" % (f.file, f.line), name, "events before %#x, requested %#x: %s" % (have, evbits, msg))
    # ---- select: FD_SET/FD_CLR per channel, bound monotone, symmetry
    SETS = {"selectop.event_readset_in": R_, "selectop.event_writeset_in": W_}
    for name, mac in (("select_add", "FD_SET"), ("select_del", "FD_CLR")):
        f = P.fn(name)
        evp = f.params[3][0]
        sites = [el for el in f.elems() if el.mac and mac in el.mac and el.e[0] == "asg"]
        found = {}
        for el in sites:
            which = [q[2] for q in walk(el.e) if is_e(q, "fld") and q[2] in SETS]
            gs = [negate_truth(c, t) for c, t, _ in f.guards_at(el.bid)]
            bits = [strip(strip(c)[3])[1] for c, t in gs if t and is_e(strip(c), "bin") and strip(c)[1] == "&" and is_e(strip(strip(c)[2]), "var") and strip(strip(c)[2])[1] == evp and is_e(strip(strip(c)[3]), "int")]
            for w in which:
                found.setdefault(w, set()).update(bits)
        for s, b in SETS.items():
            ok = found.get(s) == {b}
            r.inst((name, s), {"fn": name, "set": s, "guarded_by_bits": sorted(found.get(s, []))})
            if not ok:
                r.bad("K7:%s:select-channel:%s" % (name, s.split(".")[-1]), "%s:%d" % (f.file, f.line), name,
                      "%s of %s is guarded by event bits %s, expected exactly {%#x}" % (mac, s.split(".")[-1], sorted(found.get(s, [])), b))
    # bound: event_fds only raised
    for f in P.fns_in("select.c"):
        for el, lhs, op, rhs in f.stores():
            if fields_of(lhs)[-1:] == ["selectop.event_fds"]:
                gs = [negate_truth(c, t) for c, t, _ in f.guards_at(el.bid)]
                raised = any(t and is_e(strip(c), "bin") and strip(c)[1] == "<" and fields_of(strip(c)[2])[-1:] == ["selectop.event_fds"] and eq(strip(c)[3], rhs) for c, t in gs)
                init = f.name in ("select_init",) or (is_e(strip(rhs), "int") and f.name.endswith("init"))
                r.inst(("bound", f.name, el.n), {"fn": f.name, "site": el.where(), "store": show(el.e), "only_raises": raised, "initialiser": init})
                if not raised and not init:
                    # a lowering is acceptable only if it looks at both interest sets
                    cnt = _channel_counts(f, list(SETS))
                    if len(set(cnt.values())) != 1 or 0 in cnt.values():
                        r.bad("K4:%s:select-bound-lowered" % f.name, el.where(), f.name,
                              "event_fds (the nfds bound handed to select) is changed outside the `event_fds < fd` raise without consulting both interest sets alike (%s): a watched fd can fall outside nfds" % cnt)
    PAIRS = [("selectop.event_readset_in", "selectop.event_writeset_in"), ("selectop.event_readset_out", "selectop.event_writeset_out")]
    slotfns = set()
    for sl in ("eventop.add", "eventop.del", "eventop.dispatch"):
        slotfns |= P.slots().get(sl, set())
    for f in P.fns_in("select.c"):
        if f.name not in slotfns:
            continue    # helpers such as select_resize test one set for "already allocated"; the obligation is on the slot functions
        for a, b in PAIRS:
            cnt = _channel_counts(f, [a, b])
            if cnt[a] or cnt[b]:
                r.inst(("sym", f.name, a), {"fn": f.name, a.split(".")[-1]: cnt[a], b.split(".")[-1]: cnt[b]}, nontrivial=False)
                if cnt[a] != cnt[b]:
                    r.bad("K7:%s:select-channel-asymmetry:%s" % (f.name, a.split(".")[-1]), "%s:%d" % (f.file, f.line), f.name,
                          "%s is used %d times but %s %d times: the read and write interest sets are not treated alike" % (a.split(".")[-1], cnt[a], b.split(".")[-1], cnt[b]))
    return r


def rule_order(P):
    r = Rule("C05-order", "K3/K10", "epoll_dispatch applies and clears the change list before every wait; a non-inert change reaches epoll_ctl; eventops complete", floor=6)
    f = P.fn("epoll_dispatch")
    waits = [el for el in f.calls() if callee_name(el.e) in ("epoll_wait", "epoll_pwait2", "epoll_pwait")]
    ap = list(f.calls("epoll_apply_changes"))
    rm = list(f.calls("event_changelist_remove_all_"))
    for w in waits:
        ok = bool(ap) and bool(rm) and f.path_avoiding((f.entry, -1), lambda el: el is w, lambda el: el in ap) is None \
            and f.path_avoiding((f.entry, -1), lambda el: el is w, lambda el: el in rm) is None \
            and all(f.path_avoiding(a.pos(), lambda el: el in rm, lambda el: False) is not None for a in ap)
        r.inst(("wait", w.n), {"wait": w.where(), "apply": [x.where() for x in ap], "clear": [x.where() for x in rm], "ok": ok})
        if not ok:
            r.bad("K3:epoll_dispatch:wait-without-applying-changes", w.where(), f.name, "the wait can be reached without applying and then clearing the pending changes (kernel interest set lags behind)")
    if not waits:
        r.brk("no epoll wait call")
    # I6
    g = P.fn("epoll_apply_one_change")
    ctl = list(g.calls("epoll_ctl"))
    if not ctl:
        r.brk("no epoll_ctl in epoll_apply_one_change")
    else:
        first = min(ctl, key=lambda el: el.line)
        # returns reachable from entry without epoll_ctl: each must be dominated by the `events == 0` / inert-row test
        for ret in g.returns():
            if g.path_avoiding((g.entry, -1), lambda el: el is ret, lambda el: el in ctl) is None:
                continue
            gs = [negate_truth(c, t) for c, t, _ in g.guards_at(ret.bid)]
            inert = any((not t) and is_e(strip(c), "var") for c, t in gs) or any(t and is_e(strip(c), "bin") and strip(c)[1] == "==" and is_e(strip(strip(c)[3]), "int") and strip(strip(c)[3])[1] == 0 for c, t in gs)
            # `if (!events) return 0`
            ev_zero = any((not t) and is_e(strip(c), "var") and strip(c)[1] == "events" for c, t in gs)
            r.inst(("skip", ret.n), {"return": ret.where(), "guards": [("%s is %s" % (show(c)[:50], t)) for c, t in gs][:4], "under_inert_row_test": ev_zero})
            if not ev_zero:
                r.bad("K3:epoll_apply_one_change:change-skips-epoll_ctl", ret.where(), g.name,
                      "a return is reachable without epoll_ctl although the table row is not inert (events != 0): the kernel is not told about this change "
                      "(e.g. an fd number that was closed and reused keeps no registration)")
    # I5
    ops = P.global_("eventops")
    names = []
    for s in walk(ops.get("init")):
        if is_e(s, "addr") and is_e(strip(s[1]), "var"):
            names.append(strip(s[1])[1])
        elif is_e(s, "var") and s[2] in ("global", "lstatic", "extern"):
            names.append(s[1])
    names = sorted(set(names))
    if not names:
        r.brk("eventops[] initialiser not recognised")
    for n in names:
        gl = P.globals.get(n)
        if not gl or "init" not in gl[0]:
            r.brk("eventop %s has no initialiser in the analysed units" % n)
            continue
        have = {}
        for s in walk(gl[0]["init"]):
            if is_e(s, "sinit"):
                for fname, v in s[2]:
                    have[fname] = strip(v)
        for slot in ("eventop.init", "eventop.add", "eventop.del", "eventop.dispatch"):
            v = have.get(slot)
            ok = v is not None and not (is_e(v, "int") and v[1] == 0) and not is_e(v, "null")
            r.inst(("slot", n, slot), {"eventop": n, "slot": slot, "set": ok}, nontrivial=False)
            if not ok:
                r.bad("K10:%s:%s-null" % (n, slot), gl[0]["file"] + ":%d" % gl[0]["line"], n, "%s of %s is NULL but is called without a test" % (slot, n))
    return r


def rule_commit(P):
    """a backend's add/del that fails must leave the backend's bookkeeping as it was: the record of what the kernel is asked about (highest fd, counts, set sizes)
    is only advanced after the fallible step (growing the sets / the kernel call) has succeeded"""
    r = Rule("C05-commit", "K3", "backend bookkeeping fields are not written on a path that then reports failure", floor=4)
    BACKEND = {"select.c": "selectop", "poll.c": "pollop", "epoll.c": "epollop"}
    for f in P.all_fns:
        rec = BACKEND.get(f.file)
        if rec is None or not (f.name.endswith("_add") or f.name.endswith("_del")) or f.name.endswith("changelist_add") or len(f.params) != 5:
            continue
        fails = [x for x in f.returns() if len(x.e) > 1 and is_e(strip(x.e[1]), "int") and strip(x.e[1])[1] == -1]
        for el, lhs, op, rhs in f.stores():
            fl = fields_of(lhs)
            if not fl or not fl[0].startswith(rec + "."):
                continue
            w = f.path_avoiding(el.pos(), lambda x: x in fails, lambda x: False) if fails else None
            r.inst((f.name, el.n), {"fn": f.name, "site": el.where(), "store": show(el.e)[:60], "failure_return_reachable_afterwards": w.where() if w is not None else None})
            if w is not None:
                r.bad("K3:%s:bookkeeping-advanced-before-failure" % f.name, el.where(), f.name,
                      "`%s` is executed on a path that then returns -1 (line %d): the backend's record no longer matches what it allocated / told the kernel although the add was refused" % (show(el.e)[:50], w.line))
    return r


def rule_epoll_use(ctx, config):
    """how epoll_apply_one_change uses the operation table (C06's rule, reused): in particular EPOLLET is requested exactly when one of the three change bytes carries the ET bit - a
    registration that loses edge-triggering when one of two ET events on a descriptor is deleted breaks this property (which events are delivered how)."""
    from . import C06
    rules = C06.run(ctx, config)
    out = [r for r in rules if r.id == "C06-use"]
    for r in out:
        r.id = "C05-epoll-use"
    return out


def run(ctx, config):
    P = ctx.prog(UNITS, config)
    return [rule_evmap(P), rule_changelist(P), rule_backends(P), rule_order(P), rule_commit(P)] + rule_epoll_use(ctx, config)
