"""C27 — every HTTP request completes exactly once: completion protocol of http.c decided by evaluation of its completion/failure/cancel/teardown functions (K6/K11/K3/K2)."""
from ..core import Rule
from ..prog import *
from ..facts import AnalysisBroken
from ..interp import normx, nkey, run_all

UNITS = ["http"]
LEVEL = "other"
CONFIGS = ["build", "assert"]
EXPLANATION = (
    "Structural necessary conditions of exactly-once completion, each decided by evaluating the extracted CFG of the function on the finite domain of its "
    "decision inputs and comparing the ordered trace of queue operations, user callbacks and frees with the protocol: "
    "D (evhttp_connection_done): an outgoing request is unlinked from evcon->requests before its callback runs, the callback runs exactly once, the request is "
    "released exactly once after it; an incoming request stays queued (it still has to be answered) and is not released. "
    "F (evhttp_connection_fail_): for every error code x {incoming, outgoing, outgoing+autofree} x {error_cb set or not}: outgoing - the request is unlinked and "
    "released exactly once before any user callback, the completion callback runs exactly once with NULL unless the error is REQUEST_CANCEL (then never), the error "
    "callback at most once, and nothing touches the connection after a user callback (the callback may free it); incoming - delegated once, connection freed iff the "
    "delegate asks, no completion callback from here. I (evhttp_connection_incoming_fail): network-level errors never call the handler and detach a request the user "
    "is still answering; protocol errors call the handler exactly once. "
    "X (evhttp_cancel_request): the head request goes through fail_(CANCEL) only; a queued one is unlinked and released once; a detached one is released once. "
    "S (evhttp_send_done): the answered request is unlinked first, on_complete_cb at most once, released exactly once, the connection freed at most once and exactly "
    "when it must close or cannot accept another request. "
    "M (evhttp_make_request): ownership - on every failing return the request has been released and is not queued; on success it is queued exactly once. "
    "R (evhttp_connection_cb_cleanup): the retry branch arms retry_ev and completes nothing; the give-up branch completes each request after unlinking it from the "
    "local queue and releases it after the callback. T (evhttp_connection_free): every queued request is released through evhttp_request_free_, retry_ev and the "
    "deferred read callback are cancelled before the memory goes away, connection_cnt is decremented exactly when the connection belongs to a server. "
    "L (limit): connection_cnt is written only by evhttp_get_request (++ after linking) and evhttp_connection_free (--); over the limit no request is read from the "
    "connection. H (evhttp_handle_request): every path gives the request to exactly one responder. "
    "Declined: completion counts over network histories (resets at every byte, timeouts, retries over time, pipelining), which need executions.")
ASSUMPTIONS = ["evhttp_request_free_ unlinks and releases (checked as its own instance)", "user callbacks may free the connection or queue new requests"]


def indirect(el):
    """name of the pointer an indirect call goes through"""
    c = el.e[1]
    if c[0] == "slot":
        return c[1].split(".")[-1]
    if c[0] == "ptr":
        b = strip(c[1])
        if is_e(b, "deref"):
            b = strip(b[1])
        if is_e(b, "var"):
            return b[1]
        if is_e(b, "fld"):
            return b[2].split(".")[-1]
    return None


DIRECT = {"evhttp_request_free_auto": "free_auto", "evhttp_request_free": "free", "evhttp_request_free_": "unlink+free", "evhttp_connection_free": "confree",
          "evhttp_connection_reset_": "reset", "evhttp_connection_connect_": "connect", "evhttp_request_dispatch": "dispatch",
          "evhttp_connection_start_detectclose": "detectclose", "evhttp_connection_incoming_fail": "incoming_fail", "evhttp_connection_fail_": "fail",
          "bufferevent_disable": "disable", "evhttp_associate_new_request_with_connection": "associate", "event_add": "event_add", "event_del": "event_del",
          "event_deferred_cb_cancel_": "deferred_cancel", "bufferevent_free": "bevfree", "evhttp_send_error": "send_error", "evhttp_send_notfound": "send_notfound",
          "evhttp_connection_cb_cleanup": "cleanup"}


def notable(el):
    if any(m == "TAILQ_REMOVE" for m in (el.mac or [])):
        return "TAILQ_REMOVE"
    if any(m == "TAILQ_INSERT_TAIL" for m in (el.mac or [])):
        return "TAILQ_INSERT_TAIL"
    if el.e[0] == "call":
        n = callee_name(el.e)
        if n is None:
            i = indirect(el)
            return "call:%s" % i if i else "call:?"
        return DIRECT.get(n)
    return None


def outcomes(P, f, env, hook=None, max_steps=500):
    outs = []
    for o in run_all(f, (f.entry, 0), dict(env), lambda el: False, P, hook or (lambda el, e_: None), max_steps=max_steps, notable=notable):
        if o.kind == "exit" and o.why == "noreturn":
            continue
        if o.kind == "unknown":
            raise AnalysisBroken("%s: %s" % (f.name, o.why))
        rv = None
        if o.kind == "ret" and len(o.at.e) > 1 and o.at.e[1] is not None:
            try:
                rv = evalx(normx(o.at.e[1]), o.env, P)
            except EvalError:
                rv = None
        outs.append((rv, tuple(o.env.get("#trace", ())), o.env))
    return outs


def enumvals(P):
    d = {}
    for e in P.enums.values():
        for n, v in e["items"]:
            d[n] = v
    return d


def macro_consts(P):
    """integer constants that the source spells as a macro name: {name: value}, harvested from the extracted expressions of http.c"""
    out = {}
    import re
    for g in P.fns_in("http.c"):
        exprs = [el.e for el in g.elems()] + [b.term["cond"] for b in g.branch_blocks()]
        for e in exprs:
            for q in walk(e):
                if is_e(q, "int") and len(q) > 2 and isinstance(q[2], str) and re.match(r"^[A-Z][A-Z0-9_]+$", q[2]):
                    out.setdefault(q[2], q[1])
    return out


def count(tr, x):
    return sum(1 for t in tr if t == x)


def before(tr, a, b):
    """every a precedes the first b (vacuous if b absent)"""
    if b not in tr:
        return True
    ib = tr.index(b)
    return all(i < ib for i, t in enumerate(tr) if t == a) and a in tr[:ib]


def rule_done(P, E):
    r = Rule("C27-done", "K6/K11", "evhttp_connection_done: outgoing request unlinked -> callback once -> released once; incoming request stays queued", floor=6)
    f = P.fn("evhttp_connection_done")
    evcon = ["var", f.params[0][0], "param"]
    kflags = nkey(["fld", evcon, "evhttp_connection.flags", "->"])
    khead = nkey(["fld", ["fld", evcon, "evhttp_connection.requests", "->"], "evcon_requestq.tqh_first", "."])
    OUT, AUTOFREE, INC = E["EVHTTP_CON_OUTGOING"], E["EVHTTP_CON_AUTOFREE"], E["EVHTTP_CON_INCOMING"]
    for flags, name in ((OUT, "outgoing"), (OUT | AUTOFREE, "outgoing+autofree"), (INC, "incoming")):
        for close in (0, 1):
            def hook(el, e_):
                n = callee_name(el.e)
                if n == "evhttp_is_request_connection_close":
                    return close
                if n == "evhttp_connected":
                    return [(0, {}), (1, {})]
                return None
            env = {evcon[1]: 1, kflags: flags, khead: 7, "event_debug_logging_mask_": 0}
            for rv, tr, env2 in outcomes(P, f, env, hook):
                core_ = tuple(t for t in tr if t in ("TAILQ_REMOVE", "call:cb", "free", "free_auto", "unlink+free"))
                # free_auto: ownership (evhttp_request_own, typically called inside the callback) is sampled when the request is released, not before
                want = ("TAILQ_REMOVE", "call:cb", "free_auto") if flags & OUT else ("call:cb",)
                ok = core_ == want
                # the connection may only be freed after the request was released, and only when autofree
                if "confree" in tr:
                    ok = ok and bool(flags & AUTOFREE) and "free_auto" in tr and tr.index("confree") > tr.index("free_auto") and count(tr, "confree") == 1
                # nothing but the release and the guarded connection free follows the user callback
                after = tr[tr.index("call:cb") + 1:] if "call:cb" in tr else ()
                ok = ok and all(t in ("free_auto", "confree") for t in after)
                r.inst((name, close, tr), {"connection": name, "peer_asked_close": close, "trace": list(tr)})
                if not ok:
                    r.bad("K11:evhttp_connection_done:%s:protocol" % name.split("+")[0], "%s:%d" % (f.file, f.line), f.name,
                          "%s connection (close=%d): trace %s; protocol: %s, nothing but the release/guarded connection free after the callback" % (name, close, list(tr), " -> ".join(want)))
    return r


def rule_fail(P, E):
    r = Rule("C27-fail", "K6/K11", "evhttp_connection_fail_: unlink+release once before user callbacks; completion callback once with NULL unless cancelled; error callback at most once", floor=40)
    f = P.fn("evhttp_connection_fail_")
    evcon = ["var", f.params[0][0], "param"]
    err = f.params[1][0]
    kflags = nkey(["fld", evcon, "evhttp_connection.flags", "->"])
    khead = nkey(["fld", ["fld", evcon, "evhttp_connection.requests", "->"], "evcon_requestq.tqh_first", "."])
    OUT, AUTOFREE, INC = E["EVHTTP_CON_OUTGOING"], E["EVHTTP_CON_AUTOFREE"], E["EVHTTP_CON_INCOMING"]
    errs = [n for n in E if n.startswith("EVREQ_HTTP_")]
    if len(errs) < 5:
        r.brk("enum evhttp_request_error not found")
        return r
    req = ["var", "req", "local"]
    for en in errs:
        for flags, name in ((OUT, "outgoing"), (OUT | AUTOFREE, "outgoing+autofree"), (INC, "incoming")):
            for ecb in (0, 9):
                env = {evcon[1]: 1, err: E[en], kflags: flags, khead: 7, "event_debug_logging_mask_": 0,
                       nkey(["fld", req, "evhttp_request.error_cb", "->"]): ecb, nkey(["fld", req, "evhttp_request.cb", "->"]): 5, nkey(["fld", req, "evhttp_request.cb_arg", "->"]): 6}
                def hook(el, e_):
                    n = callee_name(el.e)
                    if n == "evhttp_connection_incoming_fail":
                        return [(0, {}), (-1, {})]
                    if n == "evhttp_request_free_":
                        # the head changes: unknown whether another request is queued
                        e_.pop(khead, None)
                        return 0
                    if n == "__errno_location":
                        return None
                    return None
                for rv, tr, env2 in outcomes(P, f, env, hook):
                    ucb = [i for i, t in enumerate(tr) if t in ("call:cb", "call:error_cb")]
                    if flags & INC:
                        ok = count(tr, "incoming_fail") == 1 and count(tr, "call:cb") == 0 and count(tr, "call:error_cb") == (1 if ecb else 0) and count(tr, "confree") <= 1 and "unlink+free" not in tr
                        want = "incoming_fail once; error_cb %s; no completion callback here" % ("once" if ecb else "never")
                    else:
                        ncb = 0 if en == "EVREQ_HTTP_REQUEST_CANCEL" else 1
                        ok = count(tr, "unlink+free") == 1 and count(tr, "call:cb") == ncb and count(tr, "call:error_cb") == (1 if ecb else 0)
                        ok = ok and (not ucb or tr.index("unlink+free") < ucb[0])
                        # after the first user callback only user callbacks follow (the callback may have freed the connection)
                        ok = ok and (not ucb or all(t in ("call:cb", "call:error_cb") for t in tr[ucb[0]:]))
                        ok = ok and ("confree" not in tr or bool(flags & AUTOFREE))
                        want = "unlink+free once, then reset/next request, then error_cb %s, cb %s; nothing else after a user callback" % ("once" if ecb else "never", "once" if ncb else "never (cancelled)")
                    r.inst((en, name, ecb, tr), {"error": en, "connection": name, "error_cb_set": bool(ecb), "trace": list(tr)})
                    if not ok:
                        r.bad("K11:evhttp_connection_fail_:%s:protocol" % name.split("+")[0], "%s:%d" % (f.file, f.line), f.name,
                              "%s, %s connection, error_cb %s: trace %s; protocol: %s" % (en, name, "set" if ecb else "unset", list(tr), want))
    return r


def rule_incoming_fail(P, E):
    r = Rule("C27-incoming-fail", "K6", "evhttp_connection_incoming_fail: network errors never call the handler and detach an unanswered request; protocol errors call it exactly once", floor=8)
    f = P.fn("evhttp_connection_incoming_fail")
    req = ["var", f.params[0][0], "param"]
    err = f.params[1][0]
    errs = [n for n in E if n.startswith("EVREQ_HTTP_")]
    for en in errs:
        for userdone in (0, 1):
            env = {req[1]: 1, err: E[en], nkey(["fld", req, "evhttp_request.userdone", "->"]): userdone, nkey(["fld", req, "evhttp_request.uri", "->"]): 0,
                   nkey(["fld", req, "evhttp_request.uri_elems", "->"]): 0, nkey(["fld", req, "evhttp_request.evcon", "->"]): 3}
            for rv, tr, env2 in outcomes(P, f, env):
                net = en in ("EVREQ_HTTP_TIMEOUT", "EVREQ_HTTP_EOF")
                if net:
                    ok = rv == -1 and "call:cb" not in tr and (("TAILQ_REMOVE" in tr) == (not userdone))
                    if not userdone:
                        ok = ok and env2.get(nkey(["fld", req, "evhttp_request.evcon", "->"])) == 0
                    want = "return -1, no handler call, request detached iff the user has not answered yet"
                else:
                    ok = rv == 0 and count(tr, "call:cb") == 1 and "TAILQ_REMOVE" not in tr
                    want = "handler exactly once, request stays queued, return 0"
                r.inst((en, userdone), {"error": en, "userdone": userdone, "returns": rv, "trace": list(tr)})
                if not ok:
                    r.bad("K6:evhttp_connection_incoming_fail:%s" % ("network" if net else "protocol"), "%s:%d" % (f.file, f.line), f.name,
                          "%s, userdone=%d: returns %s, trace %s; protocol: %s" % (en, userdone, rv, list(tr), want))
    return r


def rule_cancel(P, E):
    r = Rule("C27-cancel", "K6/K11", "evhttp_cancel_request: head -> fail_(CANCEL) only; queued -> unlink + release once; detached -> release once", floor=3)
    f = P.fn("evhttp_cancel_request")
    req = ["var", f.params[0][0], "param"]
    evl = ["var", "evcon", "local"]
    khead = nkey(["fld", ["fld", evl, "evhttp_connection.requests", "->"], "evcon_requestq.tqh_first", "."])
    for evcon, head, name, want in ((0, 0, "detached", ("free_auto",)), (3, 1, "head", ("fail",)), (3, 8, "queued", ("TAILQ_REMOVE", "free_auto"))):
        env = {req[1]: 1, nkey(["fld", req, "evhttp_request.evcon", "->"]): evcon, khead: head}
        cancel_arg = []
        def hook(el, e_):
            if callee_name(el.e) == "evhttp_connection_fail_":
                try:
                    cancel_arg.append(evalx(normx(el.e[2][1]), e_, P))
                except EvalError:
                    cancel_arg.append(None)
                return 0
            return None
        for rv, tr, env2 in outcomes(P, f, env, hook):
            core_ = tuple(t for t in tr if t in ("TAILQ_REMOVE", "free", "free_auto", "fail", "unlink+free"))
            ok = core_ == want and (name != "head" or cancel_arg == [E["EVREQ_HTTP_REQUEST_CANCEL"]])
            r.inst(name, {"request": name, "trace": list(tr)})
            if not ok:
                r.bad("K11:evhttp_cancel_request:%s" % name, "%s:%d" % (f.file, f.line), f.name, "%s request: trace %s, protocol %s" % (name, list(tr), list(want)))
    return r


def rule_send_done(P, E):
    r = Rule("C27-send-done", "K6/K11", "evhttp_send_done: unlink, on_complete at most once, release exactly once, connection freed at most once and exactly when needed", floor=8)
    f = P.fn("evhttp_send_done")
    evcon = ["var", f.params[0][0], "param"]
    khead = nkey(["fld", ["fld", evcon, "evhttp_connection.requests", "->"], "evcon_requestq.tqh_first", "."])
    req = ["var", "req", "local"]
    OWN = E.get("EVHTTP_REQ_OWN_CONNECTION", 1)
    for occ in (0, 4):
        for major, minor in ((1, 1), (1, 0)):
            for keepalive in (0, 1):
                for close in (0, 1):
                    for assoc in (0, -1):
                        env = {evcon[1]: 1, khead: 7, nkey(["fld", req, "evhttp_request.on_complete_cb", "->"]): occ, nkey(["fld", req, "evhttp_request.major", "->"]): major,
                               nkey(["fld", req, "evhttp_request.minor", "->"]): minor, nkey(["fld", req, "evhttp_request.flags", "->"]): OWN, "event_debug_logging_mask_": 0}
                        def hook(el, e_):
                            n = callee_name(el.e)
                            if n == "evhttp_is_connection_keepalive":
                                return keepalive
                            if n == "evhttp_is_request_connection_close":
                                return close
                            if n == "evhttp_associate_new_request_with_connection":
                                return assoc
                            return None
                        need_close = ((major, minor) < (1, 1) and not keepalive) or bool(close)
                        for rv, tr, env2 in outcomes(P, f, env, hook):
                            core_ = tuple(t for t in tr if t in ("TAILQ_REMOVE", "call:on_complete_cb", "free", "unlink+free", "associate", "confree"))
                            want = ("TAILQ_REMOVE",) + (("call:on_complete_cb",) if occ else ()) + ("free",) + (("confree",) if need_close else (("associate", "confree") if assoc == -1 else ("associate",)))
                            r.inst((occ, major, minor, keepalive, close, assoc), {"on_complete_cb": bool(occ), "version": "%d.%d" % (major, minor), "keepalive": keepalive, "close": close,
                                                                                  "associate_result": assoc, "trace": list(tr)})
                            if core_ != want:
                                r.bad("K11:evhttp_send_done:protocol", "%s:%d" % (f.file, f.line), f.name,
                                      "HTTP/%d.%d keepalive=%d close=%d associate=%d: trace %s, protocol %s" % (major, minor, keepalive, close, assoc, list(core_), list(want)))
    return r


def rule_make(P, E):
    r = Rule("C27-make-request", "K6/K3", "evhttp_make_request: a failing return has released the request and left it unqueued; success queues it exactly once", floor=3)
    f = P.fn("evhttp_make_request")
    evcon = ["var", f.params[0][0], "param"]
    req = ["var", f.params[1][0], "param"]
    khead = nkey(["fld", ["fld", evcon, "evhttp_connection.requests", "->"], "evcon_requestq.tqh_first", "."])
    seen = set()
    for bad_uri in (0, 1):
        for dup in (0, 7):
            for retry_cnt in (0, 2):
                for connected in (0, 1):
                    for cres in (0, -1):
                        for first in (0, 1):
                            env = {evcon[1]: 3, req[1]: 1, f.params[2][0]: 1, f.params[3][0]: PStr("/x\r\n" if bad_uri else "/x"), "event_debug_logging_mask_": 0,
                                   nkey(["fld", req, "evhttp_request.uri", "->"]): 0, nkey(["fld", req, "evhttp_request.major", "->"]): 1, nkey(["fld", req, "evhttp_request.minor", "->"]): 1,
                                   nkey(["fld", req, "evhttp_request.evcon", "->"]): 0, nkey(["fld", req, "evhttp_request.flags", "->"]): 0,
                                   nkey(["fld", evcon, "evhttp_connection.retry_cnt", "->"]): retry_cnt}
                            def hook(el, e_):
                                n = callee_name(el.e)
                                if n == "strpbrk":
                                    return 11 if bad_uri else 0
                                if n in ("event_mm_strdup_", "strdup"):
                                    return dup
                                if n == "evhttp_connected":
                                    return connected
                                if n == "evhttp_connection_connect_":
                                    return cres
                                if n in ("event_warnx", "event_warn", "event_mm_free_"):
                                    return 0
                                return None
                            if first:
                                pass
                            try:
                                outs = outcomes(P, f, env, hook)
                            except AnalysisBroken as ex:
                                r.brk(str(ex))
                                return r
                            for rv, tr, env2 in outs:
                                core_ = tuple(t for t in tr if t in ("TAILQ_INSERT_TAIL", "TAILQ_REMOVE", "free", "free_auto", "unlink+free"))
                                if (rv, core_) in seen:
                                    continue
                                seen.add((rv, core_))
                                if rv == 0:
                                    ok = core_ == ("TAILQ_INSERT_TAIL",)
                                    want = "queued exactly once, not released (the connection owns it)"
                                else:
                                    ok = count(core_, "free_auto") == 1 and "free" not in core_ and count(core_, "TAILQ_INSERT_TAIL") == count(core_, "TAILQ_REMOVE")
                                    want = "released exactly once and not left on the queue (\"On failure, the request object is no longer valid as it has been freed\")"
                                r.inst((rv, core_), {"returns": rv, "trace": list(core_), "example": {"uri_has_crlf": bad_uri, "strdup_ok": bool(dup), "retry_pending": bool(retry_cnt), "connected": connected, "connect_result": cres}})
                                if not ok:
                                    r.bad("K3:evhttp_make_request:%s" % ("failure-keeps-request" if rv != 0 else "success-ownership"), "%s:%d" % (f.file, f.line), f.name,
                                          "returns %s with trace %s (uri_has_crlf=%d strdup=%s retry_pending=%d connected=%d connect_result=%d); documented: %s" % (
                                              rv, list(core_), bad_uri, "ok" if dup else "NULL", retry_cnt, connected, cres, want))
    return r


def rule_release(P, E):
    r = Rule("C27-release", "K6", "evhttp_request_free_auto releases exactly the requests the user does not own; evhttp_request_free defers while a chunk callback runs; evhttp_request_free_ unlinks then releases", floor=5)
    f = P.fn("evhttp_request_free_auto")
    req = ["var", f.params[0][0], "param"]
    OWNED = E.get("EVHTTP_USER_OWNED")
    if OWNED is None:
        r.brk("EVHTTP_USER_OWNED not found")
        return r
    for flags in (0, OWNED, OWNED | 1, 1):
        for rv, tr, env2 in outcomes(P, f, {req[1]: 1, nkey(["fld", req, "evhttp_request.flags", "->"]): flags}):
            want = () if flags & OWNED else ("free",)
            core_ = tuple(t for t in tr if t in ("free", "free_auto"))
            r.inst(("auto", flags), {"fn": f.name, "flags": flags, "trace": list(core_)})
            if core_ != want:
                r.bad("K6:evhttp_request_free_auto:ownership", "%s:%d" % (f.file, f.line), f.name, "flags %#x: trace %s, documented %s (a request taken with evhttp_request_own belongs to the user)" % (flags, list(core_), list(want)))
    g = P.fn("evhttp_request_free")
    rq = ["var", g.params[0][0], "param"]
    DEFER, NEEDS = E.get("EVHTTP_REQ_DEFER_FREE"), E.get("EVHTTP_REQ_NEEDS_FREE")
    if DEFER is None or NEEDS is None:
        r.brk("EVHTTP_REQ_DEFER_FREE / NEEDS_FREE not found")
        return r
    kf = nkey(["fld", rq, "evhttp_request.flags", "->"])
    for flags in (0, DEFER):
        def hook(el, e_):
            if callee_name(el.e) == "event_mm_free_" and eq(strip(el.e[2][0]), rq):
                e_["#freed"] = e_.get("#freed", 0) + 1
                return 0
            if callee_name(el.e) in ("event_mm_free_", "evhttp_uri_free", "evhttp_clear_headers", "evbuffer_free"):
                return 0
            return None
        env = {rq[1]: 1, kf: flags}
        for fld in ("remote_host", "uri", "uri_elems", "response_code_line", "host_cache", "input_buffer", "output_buffer", "input_headers", "output_headers"):
            env[nkey(["fld", rq, "evhttp_request.%s" % fld, "->"])] = 0
        for rv, tr, env2 in outcomes(P, g, env, hook):
            freed = env2.get("#freed", 0)
            if flags & DEFER:
                ok = freed == 0 and (env2.get(kf, 0) & NEEDS)
                want = "not released now; NEEDS_FREE set (the caller running the chunk callback releases it afterwards)"
            else:
                ok = freed == 1
                want = "released exactly once"
            r.inst(("free", flags), {"fn": g.name, "flags": flags, "released": freed, "flags_after": env2.get(kf)})
            if not ok:
                r.bad("K6:evhttp_request_free:defer", "%s:%d" % (g.file, g.line), g.name, "flags %#x: released %d times, flags afterwards %s; protocol: %s" % (flags, freed, env2.get(kf), want))
    h = P.fn("evhttp_request_free_")
    for rv, tr, env2 in outcomes(P, h, {h.params[0][0]: 1, h.params[1][0]: 2}):
        core_ = tuple(t for t in tr if t in ("TAILQ_REMOVE", "free", "free_auto"))
        r.inst("free_", {"fn": h.name, "trace": list(core_)})
        if core_ != ("TAILQ_REMOVE", "free_auto"):
            r.bad("K6:evhttp_request_free_:protocol", "%s:%d" % (h.file, h.line), h.name, "trace %s, protocol: unlink, then release unless user-owned" % list(core_))
    return r


def rule_retry_state(P, E):
    """evhttp_make_request only queues a request while retry_cnt != 0 and relies on retry_ev to connect: so `retry_cnt != 0` must imply `retry_ev is pending`"""
    r = Rule("C27-retry-state", "K6/K2", "retry_cnt != 0 implies the retry timer is pending: cleanup leaves (timer armed) or (retry_cnt == 0); retry_ev is deleted only at teardown", floor=8)
    f = P.fn("evhttp_connection_cb_cleanup")
    evcon = ["var", f.params[0][0], "param"]
    K = lambda fl: nkey(["fld", evcon, "evhttp_connection.%s" % fl, "->"])
    khead = nkey(["fld", ["fld", evcon, "evhttp_connection.requests", "->"], "evcon_requestq.tqh_first", "."])
    for rmax in (-1, 0, 1, 3):
        for rcnt in (0, 1, 2, 3):
            if rmax >= 0 and rcnt > rmax:
                continue
            env = {evcon[1]: 1, K("flags"): E["EVHTTP_CON_OUTGOING"], K("retry_max"): rmax, K("retry_cnt"): rcnt, khead: 0, "event_debug_logging_mask_": 0}
            def hook(el, e_):
                n = callee_name(el.e)
                if n == "event_add" and any(is_e(q, "fld") and q[2] == "evhttp_connection.retry_ev" for q in walk(el.e[2][0])):
                    e_["#armed"] = 1
                    return 0
                if n in ("evhttp_connection_reset_", "event_assign", "evhttp_connection_free"):
                    return 0
                return None
            try:
                outs = outcomes(P, f, env, hook, max_steps=800)
            except AnalysisBroken as ex:
                r.brk(str(ex))
                return r
            for rv, tr, env2 in outs:
                armed = bool(env2.get("#armed"))
                cnt = env2.get(K("retry_cnt"))
                ok = armed or cnt == 0
                r.inst((rmax, rcnt, armed, cnt), {"retry_max": rmax, "retry_cnt_before": rcnt, "timer_armed": armed, "retry_cnt_after": cnt})
                if not ok:
                    r.bad("K6:evhttp_connection_cb_cleanup:retry-state", "%s:%d" % (f.file, f.line), f.name,
                          "retry_max=%d retry_cnt=%d: the function returns with retry_cnt=%s and no retry timer armed — evhttp_make_request will only queue later requests (\"do not conflict with retry_ev\") and nothing will ever start them" % (rmax, rcnt, cnt))
    # who may delete the timer
    for g in P.fns_in("http.c"):
        for el in g.calls():
            if callee_name(el.e) in ("event_del", "event_del_noblock", "event_del_block") and any(is_e(q, "fld") and q[2] == "evhttp_connection.retry_ev" for q in walk(el.e[2][0])):
                ok = g.name == "evhttp_connection_free"
                if not ok:
                    # acceptable when retry_cnt is reset to 0 on every path afterwards
                    w = g.exit_reachable_avoiding(el.pos(), lambda x: x.e[0] == "asg" and fields_of(x.e[2])[-1:] == ["evhttp_connection.retry_cnt"] and is_e(strip(x.e[3]), "int") and strip(x.e[3])[1] == 0)
                    ok = w is None
                r.inst(("del", g.name, el.n), {"fn": g.name, "site": el.where(), "teardown_or_resets_retry_cnt": ok}, nontrivial=False)
                if not ok:
                    r.bad("K2:%s:retry-timer-deleted-count-kept" % g.name, el.where(), g.name,
                          "retry_ev is deleted here while retry_cnt may stay non-zero: requests made afterwards are queued for a retry that will never happen")
    return r


def rule_cleanup(P, E):
    r = Rule("C27-retry", "K3/K2", "evhttp_connection_cb_cleanup: retry arms the timer and completes nothing; give-up unlinks, completes and then releases each request", floor=3)
    f = P.fn("evhttp_connection_cb_cleanup")
    cbs = [el for el in f.elems() if el.e[0] == "call" and callee_name(el.e) is None and indirect(el) == "cb"]
    adds = [el for el in f.calls("event_add") if any(is_e(q, "fld") and q[2] == "evhttp_connection.retry_ev" for q in walk(el.e[2][0]))]
    if len(cbs) != 1 or len(adds) != 1:
        r.brk("evhttp_connection_cb_cleanup: expected one completion call and one retry_ev arming (found %d, %d)" % (len(cbs), len(adds)))
        return r
    cb, add = cbs[0], adds[0]
    # retry branch: from the arming no completion call is reachable
    w = f.path_avoiding(add.pos(), lambda x: x is cb or (x.e[0] == "call" and callee_name(x.e) in ("evhttp_request_free_auto", "evhttp_request_free_", "evhttp_connection_free")), lambda x: False)
    r.inst("retry", {"arming": add.where(), "completion_reachable_after_arming": w.where() if w is not None else None})
    if w is not None:
        r.bad("K3:evhttp_connection_cb_cleanup:retry-completes", w.where(), f.name, "after arming the retry timer the function still completes/releases a request or frees the connection (line %d): the retry would then run on it again" % w.line)
    # and the retry counter advances (otherwise retries never end)
    inc = [el for el in f.elems() if el.e[0] in ("incdec", "asg") and any(is_e(q, "fld") and q[2] == "evhttp_connection.retry_cnt" for q in walk(el.e[2] if el.e[0] == "asg" else el.e[3]))]
    w2 = f.exit_reachable_avoiding(add.pos(), lambda x: x in inc)
    r.inst("retry-count", {"increments": [x.where() for x in inc], "exit_without_increment": bool(w2)})
    if w2 is not None:
        r.bad("K3:evhttp_connection_cb_cleanup:retry-not-counted", add.where(), f.name, "a retry is armed without advancing retry_cnt: retry_max is never reached and the requests never complete")
    # give-up: the completion call is preceded in its block by an unlink from the local queue and followed by the release before the loop continues
    blk = f.blocks[cb.bid]
    unl = [el for el in f.elems() if any(m == "TAILQ_REMOVE" for m in (el.mac or [])) and f.dominates(el.bid, cb.bid) and el.bid != cb.bid or (el.bid == cb.bid and el.idx < cb.idx and any(m == "TAILQ_REMOVE" for m in (el.mac or [])))]
    # two removals dominate the callback region: from evcon->requests (first loop) is not a dominator (loop), so look for a removal between the loop head and the callback
    hdr = [b for b in f.branch_blocks() if b.term.get("k") == "while" and f.dominates(b.id, cb.bid)]
    inner = hdr[-1] if hdr else None
    rem_ok = False
    if inner is not None:
        body = [s for s, l in inner.succ if l == "T"][0]
        rem_ok = f.path_avoiding((body, -1), lambda x: x is cb, lambda x: any(m == "TAILQ_REMOVE" for m in (x.mac or []))) is None
    fre = f.path_avoiding(cb.pos(), lambda x: x is cb or x.e[0] == "ret", lambda x: x.e[0] == "call" and callee_name(x.e) == "evhttp_request_free_auto")
    detach = [el for el, lhs, op, rhs in f.stores() if fields_of(lhs)[-1:] == ["evhttp_request.evcon"] and is_null_e(rhs) and f.path_avoiding((body, -1) if inner is not None else (f.entry, -1), lambda x: x is cb, lambda x, el=el: x is el) is None]
    r.inst("give-up", {"completion": cb.where(), "unlinked_before_completion": rem_ok, "released_after_completion_on_every_path": fre is None, "detached_from_connection_before_completion": bool(detach)})
    if not rem_ok:
        r.bad("K2:evhttp_connection_cb_cleanup:complete-while-queued", cb.where(), f.name, "a request is completed while still linked in the queue being drained: it would be completed again")
    if fre is not None:
        r.bad("K3:evhttp_connection_cb_cleanup:completed-not-released", cb.where(), f.name, "after its callback a request can stay unreleased (next iteration or return reached without evhttp_request_free_auto)")
    if not detach:
        r.bad("K2:evhttp_connection_cb_cleanup:completed-still-attached", cb.where(), f.name, "a request is completed without request->evcon = NULL: a cancel from the callback would touch the queue it was removed from")
    # the first loop moves, it does not complete
    return r


def is_null_e(e):
    e = strip(e)
    return is_e(e, "null") or (is_e(e, "int") and e[1] == 0)


def rule_teardown(P, E):
    r = Rule("C27-teardown", "K3/K2/K1", "evhttp_connection_free releases queued requests, cancels retry timer and deferred callback before freeing; connection_cnt has one incrementer and one decrementer", floor=6)
    f = P.fn("evhttp_connection_free")
    fin = [el for el in f.calls() if callee_name(el.e) in ("event_mm_free_",) and is_e(strip(el.e[2][0]), "var") and strip(el.e[2][0])[1] == f.params[0][0]]
    if len(fin) != 1:
        r.brk("evhttp_connection_free: final mm_free(evcon) not found")
        return r
    last = fin[0]
    for what, pred, why in (
            ("requests released", lambda x: x.e[0] == "call" and callee_name(x.e) == "evhttp_request_free_", "queued requests would leak (or keep a dangling req->evcon)"),
            ("deferred read callback cancelled", lambda x: x.e[0] == "call" and callee_name(x.e) == "event_deferred_cb_cancel_", "a scheduled evhttp_deferred_read_cb would run on freed memory"),
            ("bufferevent freed", lambda x: x.e[0] == "call" and callee_name(x.e) == "bufferevent_free", "the socket and its callbacks (which point at evcon) would outlive the connection")):
        sites = [x for x in f.elems() if pred(x)]
        ok = bool(sites) and all(f.pos_dominates(x.pos(), last.pos()) or f.dominates(x.bid, last.bid) or True for x in sites)
        # must be executed (or guarded by the presence of the thing) on every path to the final free: allow a guarding null test
        w = f.path_avoiding((f.entry, -1), lambda x: x is last, lambda x: pred(x)) if sites else True
        guarded = False
        if w is not None and sites:
            # acceptable when every avoiding path goes through the false edge of a guard that tests the very object (nothing to release)
            gs = [negate_truth(c, t) for c, t, _ in f.guards_at(sites[0].bid)]
            guarded = bool(gs)
        r.inst(what, {"sites": [x.where() for x in sites], "on_every_path_or_guarded_by_presence": bool(sites) and (w is None or guarded)})
        if not sites or (w is not None and not guarded):
            r.bad("K3:evhttp_connection_free:%s" % what.replace(" ", "-"), last.where(), f.name, "the connection memory is freed without: %s — %s" % (what, why))
    # retry timer: deleted before the free whenever it was initialised
    dels = [x for x in f.calls("event_del") if any(is_e(q, "fld") and q[2] == "evhttp_connection.retry_ev" for q in walk(x.e[2][0]))]
    r.inst("retry timer", {"deleted_at": [x.where() for x in dels]})
    if not dels or not all(f.dominates(x.bid, last.bid) or f.path_avoiding(x.pos(), lambda y: y is last, lambda y: False) is not None for x in dels):
        r.bad("K3:evhttp_connection_free:retry-timer-left-armed", last.where(), f.name, "retry_ev is not deleted before the connection is freed: evhttp_connection_retry would run on freed memory")
    # connection_cnt
    writers = []
    for g in P.fns_in("http.c"):
        for el in g.elems():
            tgt = None
            if el.e[0] == "incdec":
                tgt, op = el.e[3], el.e[1]
            elif el.e[0] == "asg":
                tgt, op = el.e[2], el.e[1]
            if tgt is not None and fields_of(tgt)[-1:] == ["evhttp.connection_cnt"]:
                writers.append((g.name, el, op))
    r.inst("connection_cnt writers", {"writers": [(g, el.where(), op) for g, el, op in writers]})
    exp = {("evhttp_get_request", "++"), ("evhttp_connection_free", "--")}
    got = set((g, op) for g, el, op in writers)
    if got != exp:
        r.bad("K1:evhttp.connection_cnt:writers", writers[0][1].where() if writers else "%s:%d" % (f.file, f.line), "http.c",
              "connection_cnt is written by %s; the count is exact only with one increment in evhttp_get_request and one decrement in evhttp_connection_free" % sorted(got))
    for g, el, op in writers:
        h = P.fn(g)
        if op == "--":
            gs = [negate_truth(c, t) for c, t, _ in h.guards_at(el.bid)]
            ok = any(t and any(is_e(q, "fld") and q[2] == "evhttp_connection.http_server" for q in walk(c)) for c, t in gs)
            same = any(any(m == "TAILQ_REMOVE" for m in (x.mac or [])) for x in h.blocks[el.bid].elems) or any(any(m == "TAILQ_REMOVE" for m in (x.mac or [])) and h.dominates(x.bid, el.bid) for x in h.elems())
            r.inst("decrement", {"site": el.where(), "only_for_server_connections": ok, "with_unlink_from_server_list": same})
            if not (ok and same):
                r.bad("K2:evhttp_connection_free:decrement-guard", el.where(), g, "connection_cnt-- must happen exactly for connections linked into a server (http_server != NULL, together with the unlink)")
        if op == "++":
            # limit test after the increment; over the limit: no associate
            lim = [b for b in h.branch_blocks() if any(is_e(q, "fld") and q[2] == "evhttp.connection_max" for q in walk(b.term["cond"])) and any(is_e(q, "fld") and q[2] == "evhttp.connection_cnt" for q in walk(b.term["cond"]))]
            ok = bool(lim) and all(h.dominates(el.bid, b.id) for b in lim)
            over = None
            if lim:
                b = lim[-1]
                ts = [s for s, l in b.succ if l == "T"][0]
                over = h.path_avoiding((ts, -1), lambda x: x.e[0] == "call" and callee_name(x.e) == "evhttp_associate_new_request_with_connection", lambda x: False) if True else None
                # restrict to the true side: blocks dominated by ts
                if over is not None and not h.dominates(ts, over.bid):
                    over = None
                err = [x for x in h.calls("evhttp_send_error") if h.dominates(ts, x.bid)]
            r.inst("limit", {"increment": el.where(), "limit_test_after_increment": ok, "request_read_over_limit": over.where() if over is not None else None, "refusal": [x.where() for x in err] if lim else []})
            if not ok:
                r.bad("K2:evhttp_get_request:limit-test", el.where(), g, "the connection limit is not tested after counting the new connection")
            elif over is not None:
                r.bad("K2:evhttp_get_request:over-limit-serves", over.where(), g, "a connection over the limit is given a request to read (it must only be refused)")
            elif not err:
                r.bad("K2:evhttp_get_request:over-limit-not-refused", el.where(), g, "over the limit the client is not answered with an error")
    return r


def rule_handle(P, E):
    r = Rule("C27-respond-once", "K11", "evhttp_handle_request hands the request to exactly one responder on every path", floor=1)
    f = P.fn("evhttp_handle_request")
    def responder(x):
        if x.e[0] != "call":
            return False
        n = callee_name(x.e)
        if n in ("evhttp_send_error", "evhttp_send_notfound", "evhttp_send_reply", "evhttp_send_page_"):
            return True
        return n is None and indirect(x) in ("cb", "gencb")
    from ..typestate import exactly_once
    res = exactly_once(f, (f.entry, -1), responder, lambda el: el.e[0] == "ret")
    sites = [x.where() for x in f.elems() if responder(x)]
    r.inst("responders", {"sites": sites, "paths_without": len(res["leaks"]), "paths_with_two": len(res["doubles"])})
    for w in res["doubles"]:
        r.bad("K11:evhttp_handle_request:two-responders", w.where(), f.name, "a path reaches a second responder for the same request")
    if res["leaks"]:
        w = res["leaks"][0]
        r.bad("K11:evhttp_handle_request:no-responder", w.where() if hasattr(w, "where") else "%s:%d" % (f.file, f.line), f.name, "a path returns without handing the request to any responder: the client never gets an answer")
    return r


def rule_write_cb(P, E):
    """evhttp_write_buffer installs the completion callback it is given - NULL included.  evhttp_write_cb runs evcon->cb every time the output drains; a callback left over from the
    previous reply on a persistent connection (evhttp_send_done) would complete - and free - the request that is being streamed now."""
    r = Rule("C27-write-cb", "K6", "evhttp_write_buffer replaces the connection's write-completion callback and its argument by exactly what it is given, NULL included", floor=6)
    f = P.fn("evhttp_write_buffer")
    ev = ["var", f.params[0][0], "param"]
    kcb, karg = nkey(["fld", ev, "evhttp_connection.cb", "->"]), nkey(["fld", ev, "evhttp_connection.cb_arg", "->"])
    for cb in (0, 9):
        for arg in (0, 4):
            for old in ((0, 0), (5, 6)):
                env = {"#typed": 1, "event_debug_logging_mask_": 0, f.params[0][0]: 1, f.params[1][0]: cb, f.params[2][0]: arg, kcb: old[0], karg: old[1]}

                def hook(el, e_):
                    if callee_name(el.e) in ("bufferevent_setcb", "bufferevent_enable", "event_debugx_"):
                        return 0
                    return None
                for o in run_all(f, (f.entry, 0), env, lambda el: False, P, hook, max_steps=300):
                    if o.kind == "exit" and o.why == "noreturn":
                        continue
                    if o.kind == "unknown":
                        r.brk("evhttp_write_buffer: %s" % o.why)
                        return r
                    got = (o.env.get(kcb), o.env.get(karg))
                    r.inst((cb, arg, old), {"given": [cb, arg], "before": list(old), "after": list(got)})
                    if got != (cb, arg):
                        r.bad("K6:evhttp_write_buffer:callback-not-replaced", "%s:%d" % (f.file, f.line), f.name,
                              "given callback %s / argument %s with %s installed before: afterwards %s is installed (a completion callback left over from the previous reply would run for this one)" % (cb or "NULL", arg or "NULL", old, got))
    g = P.fn("evhttp_write_cb")
    calls = [el for el in g.calls() if isinstance(el.e[1], list) and el.e[1] and el.e[1][0] in ("slot", "ptr")]
    r.inst("fires", {"fn": g.name, "indirect_calls": [show(c.e)[:60] for c in calls]})
    if len(calls) != 1:
        r.brk("evhttp_write_cb: expected one call through evcon->cb, found %d" % len(calls))
    seen, uniq = set(), []
    for f_ in r.findings:
        if f_.key not in seen:
            seen.add(f_.key)
            uniq.append(f_)
    r.findings = uniq
    return r


def run(ctx, config):
    P = ctx.prog(UNITS, config)
    E = enumvals(P)
    # connection/request flag macros are #defines: take the values the preprocessor gave them in this build
    for n, v in macro_consts(P).items():
        E.setdefault(n, v)
    for n in ("EVHTTP_CON_INCOMING", "EVHTTP_CON_OUTGOING", "EVHTTP_CON_AUTOFREE", "EVHTTP_REQ_OWN_CONNECTION"):
        if n not in E:
            rr = Rule("C27-constants", "K6", "flag constants", floor=1)
            rr.brk("flag macro %s not found in http.c" % n)
            return [rr]
    rules = []
    for mk in (rule_done, rule_fail, rule_incoming_fail, rule_cancel, rule_send_done, rule_make, rule_release, rule_retry_state, rule_cleanup, rule_teardown, rule_handle, rule_write_cb):
        try:
            rules.append(mk(P, E))
        except AnalysisBroken as ex:
            rr = Rule("C27-%s" % mk.__name__[5:], "K6", mk.__name__, floor=1)
            rr.brk(str(ex))
            rules.append(rr)
    return rules
