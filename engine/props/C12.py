"""C12 — evbuffer byte-string model: only the guard clauses (freeze flags, wrap-around tests, encapsulation) are claimed."""
from ..core import Rule
from ..prog import *
from ..facts import AnalysisBroken
from .. import bufmodel
from .. import evbmodel
from .. import evbsearch
from . import C13

UNITS = None   # E3 needs every unit
LEVEL = "other"
EXPLANATION = ("E1 (K4/K7): for every public function of buffer.c and every buffer X whose total_len it changes (directly or through an inferred helper), "
               "the change is dominated by the false edge of a test of the matching freeze flag of the same X: freeze_end for tail growth, freeze_start for "
               "consumption and for head growth (prepend). E2 (K4): in evbuffer_add and evbuffer_prepend the wrap-around test datlen > EV_SIZE_MAX - total_len "
               "dominates the first commit, and the chain allocator rejects sizes above EVBUFFER_CHAIN_MAX before calling the allocator. E3 (K2): first, last, "
               "last_with_datap, total_len and a chain's misalign/off/buffer_len/buffer are written only by functions of buffer.c. Decides these necessary guards; "
               "the bulk of the property (contents, lengths, positions equal the byte-string model) lives in run-time values and is declined.")
ASSUMPTIONS = []
CONFIGS = ["build", "assert"]

HEAD_GROWTH = {"evbuffer_prepend": "inserts before the first byte", "evbuffer_prepend_buffer": "inserts before the first byte"}
# functions whose change does not move bytes in or out of the visible string
NO_FREEZE_NEEDED = {
    "evbuffer_free": "destructor",
}
PRIVATE_FIELDS = ("evbuffer.first", "evbuffer.last", "evbuffer.last_with_datap", "evbuffer.total_len",
                  "evbuffer_chain.misalign", "evbuffer_chain.off", "evbuffer_chain.buffer_len", "evbuffer_chain.buffer", "evbuffer_chain.next")
OWNER_FILES = ("buffer.c", "buffer_iocp.c")


def run(ctx, config):
    P = ctx.prog(UNITS, config)
    M = bufmodel.BufModel(P)
    A = C13.Acc(M)
    rules = []
    r = Rule("C12-freeze", "K4/K7", "every public mutation of buffer X is dominated by a failed test of X's matching freeze flag", floor=16)
    for fn in M.fns:
        if not fn.public or fn.name in NO_FREEZE_NEEDED:
            continue
        for el, X, d, amount, kind in A.events(fn):
            if X is None:
                continue
            want = "evbuffer.freeze_start" if (d == "-" or fn.name in HEAD_GROWTH) else "evbuffer.freeze_end"
            # only buffers that are parameters of the public function (locals are private temporaries)
            if not any(n == X for n, t in fn.params):
                continue
            gs = [negate_truth(c, t) for c, t, _ in fn.guards_at(el.bid)]
            ok = any((not t) and is_e(strip(c), "fld") and strip(c)[2] == want and C13.subj(c) == X for c, t in gs)
            r.inst((fn.name, el.n, X), {"fn": fn.name, "site": el.where(), "buffer": X, "change": kind + " " + d, "needs": want.split(".")[-1], "guarded": ok})
            if not ok:
                other = "evbuffer.freeze_start" if want.endswith("end") else "evbuffer.freeze_end"
                wrong = any((not t) and is_e(strip(c), "fld") and strip(c)[2] == other and C13.subj(c) == X for c, t in gs)
                r.bad("K4:%s:%s:%s-not-tested" % (fn.name, X, want.split(".")[-1]), el.where(), fn.name,
                      "%s of %s changes here (%s) without a dominating test of %s->%s%s" %
                      ("the end" if want.endswith("end") else "the front", X, kind, X, want.split(".")[-1],
                       " (the other flag is tested instead)" if wrong else ""))
    rules.append(r)

    r2 = Rule("C12-overflow", "K4", "wrap-around tests dominate the first commit in evbuffer_add/evbuffer_prepend; chain allocations are size-checked", floor=4)
    for fname in ("evbuffer_add", "evbuffer_prepend"):
        f = P.fn(fname)
        dl = f.params[2][0]
        commits = M.commits_in(f)
        def is_wrap(c):
            c = strip(c)
            if is_e(c, "bin") and c[1] == ">" and is_e(strip(c[2]), "var") and strip(c[2])[1] == dl:
                r_ = strip(c[3])
                if is_e(r_, "bin") and r_[1] == "-" and is_e(strip(r_[2]), "int") and strip(r_[2])[1] in (-1, 0xffffffffffffffff, 0x7fffffffffffffff * 2 + 1) \
                        and is_e(strip(r_[3]), "fld") and strip(r_[3])[2] == "evbuffer.total_len":
                    return True
            return False
        tests = [b for b in f.branch_blocks() if is_wrap(b.term["cond"])]
        r2.inst((fname, "test"), {"fn": fname, "wraparound_tests": ["%s:%d" % (f.file, b.term["loc"][0]) for b in tests]})
        if len(tests) != 1:
            r2.bad("K4:%s:no-wraparound-test" % fname, "%s:%d" % (f.file, f.line), fname, "datlen > EV_SIZE_MAX - total_len test missing")
            continue
        for el, why in commits:
            gs = [negate_truth(c, t) for c, t, _ in f.guards_at(el.bid)]
            if not any((not t) and is_wrap(c) for c, t in gs):
                r2.bad("K4:%s:commit-before-wraparound-test" % fname, el.where(), fname, "%s is not dominated by the failed wrap-around test" % why)
                break
        r2.inst((fname, "dominates"), {"fn": fname, "commits_checked": len(commits)})
    f = P.fn("evbuffer_chain_new")
    allocs = [el for el in f.calls() if callee_name(el.e) in ("event_mm_malloc_", "malloc")]
    for el in allocs:
        gs = [negate_truth(c, t) for c, t, _ in f.guards_at(el.bid)]
        ok = any((not t) and is_e(strip(c), "bin") and strip(c)[1] == ">" and any(is_e(q, "var") and q[1] == f.params[0][0] for q in walk(strip(c)[2])) for c, t in gs)
        r2.inst(("alloc", el.n), {"site": el.where(), "size_checked": ok})
        if not ok:
            r2.bad("K4:evbuffer_chain_new:unchecked-size", el.where(), f.name, "allocation not dominated by the EVBUFFER_CHAIN_MAX size test")
    g = P.fn("evbuffer_chain_new_membuf")
    gs_ok = any(is_e(strip(b.term["cond"]), "bin") and strip(b.term["cond"])[1] == ">" for b in g.branch_blocks())
    r2.inst("membuf", {"fn": g.name, "size_test": gs_ok})
    if not gs_ok:
        r2.bad("K4:evbuffer_chain_new_membuf:unchecked-size", "%s:%d" % (g.file, g.line), g.name, "size test missing before rounding up")
    rules.append(r2)

    # ---- a decision about the chain list must be taken on current values: a local snapshot of list fields that is tested after
    #      one of those fields was stored (directly, same object) is stale
    r2c = Rule("C12-stale", "K8", "a local computed from chain-list fields is not used as a branch condition after one of those fields was stored", floor=0)
    WATCH = ("evbuffer_chain.off", "evbuffer_chain.misalign", "evbuffer.first", "evbuffer.last", "evbuffer.last_with_datap", "evbuffer.total_len")
    for fn in M.fns:
        for d, lhs, op, rhs in fn.stores():
            l = strip(lhs)
            if not (is_e(l, "var") and l[2] == "local" and op == "=" and d.e[0] in ("asg", "decl")):
                continue
            top = strip(rhs)
            # only *decisions* (comparison / logical results) are snapshots in this sense; cursors such as `chain = buf->first` are not
            if not ((is_e(top, "bin") and top[1] in ("==", "!=", "<", ">", "<=", ">=", "&&", "||")) or (is_e(top, "un") and top[1] == "!")):
                continue
            reads = [(q[2], key(strip(q[1]))) for q in walk(rhs) if is_e(q, "fld") and q[2] in WATCH]
            if not reads:
                continue
            # uses as (part of) a branch condition
            for b in fn.branch_blocks():
                if not any(is_e(q, "var") and q[1] == l[1] for q in walk(b.term["cond"])):
                    continue
                if not (fn.dominates(d.bid, b.id) and b.id != d.bid):
                    continue
                # only this definition reaches?
                anchor = fn.blocks[b.id].elems[-1] if fn.blocks[b.id].elems else None
                stale = None
                for s_, lhs2, op2, rhs2 in fn.stores():
                    l2 = strip(lhs2)
                    if is_e(l2, "fld") and (l2[2], key(strip(l2[1]))) in reads and s_ is not d:
                        # store on a path def -> branch
                        if fn.path_avoiding(d.pos(), lambda y, s_=s_: y is s_, lambda y: False) is not None and b.id in fn.reach_blocks(s_.bid) and \
                                b.id in fn.segment_blocks(d.bid, b.id) | {b.id} and s_.bid in fn.segment_blocks(d.bid, b.id) | {d.bid}:
                            if s_.bid == d.bid and s_.idx < d.idx:
                                continue
                            stale = s_
                r2c.inst((fn.name, d.n, b.id), {"fn": fn.name, "snapshot": show(d.e)[:70], "tested_at": "%s:%d" % (fn.file, b.term["loc"][0]),
                                              "field_stored_in_between": show(stale.e)[:60] if stale else None})
                if stale is not None:
                    r2c.bad("K8:%s:stale-snapshot:%s" % (fn.name, l[1]), "%s:%d" % (fn.file, b.term["loc"][0]), fn.name,
                            "`%s` was computed at line %d from %s, but `%s` (line %d) changes that field before the value is tested here: the decision is taken on a stale state"
                            % (l[1], d.line, sorted(set(x[0] for x in reads)), show(stale.e)[:50], stale.line))
    rules.append(r2c)

    r3 = Rule("C12-private", "K2", "the chain list and length fields of evbuffers are written only inside buffer.c", floor=110)
    for fn in P.all_fns:
        for el, lhs, op, rhs in fn.stores():
            l = strip(lhs)
            if is_e(l, "fld") and l[2] in PRIVATE_FIELDS:
                r3.inst((fn.name, el.n), {"fn": fn.name, "site": el.where(), "store": show(el.e)[:70]} if fn.file not in OWNER_FILES else None,
                        nontrivial=fn.file not in OWNER_FILES)
                if fn.file not in OWNER_FILES:
                    r3.bad("K2:%s:writes-%s" % (fn.name, l[2]), el.where(), fn.name, "%s is written outside buffer.c: %s" % (l[2], show(el.e)[:60]))
    rules.append(r3)
    rules.append(evbmodel.rule_model(P, "C12-model"))
    rules.append(evbsearch.rule_search_eol(P, "C12-search-eol"))
    return rules
