"""C35 — DNS server responses encode exactly the records that were added: encoder bounds, label limits, compression range, error propagation."""
from ..core import Rule
from ..prog import *
from ..facts import AnalysisBroken
from .. import dnsenc as E
from ..interp import normx, nkey, run_all

UNITS = ["evdns"]
LEVEL = "other"
EXPLANATION = ("K4: every write into the response buffer in dnsname_to_labels and evdns_server_request_format_response (APPEND16/32 expansions, label "
               "length bytes, label copies, record data, the back-patched RDLENGTH) is dominated by a capacity test that covers index+size, allowing "
               "for positive increments of the index since the test, or by a later successful bounded encoder call starting beyond it; label <= 63 and "
               "name <= 255 rejections dominate emission; a position is recorded for name compression only when a 14-bit pointer can hold it and pointers "
               "carry the 0xc0 marker. K12: a negative encoder result truncates the response instead of being used as an offset. Found and repaired two "
               "genuine defects (unguarded terminating zero label: 1-byte stack overflow; compression positions >= 0x4000). Decoding equivalence of whole "
               "responses is declined.")
ASSUMPTIONS = []
CONFIGS = ["build", "assert"]


def rule_truncate(P):
    """a reply is cut to the advertised UDP size (and TC set) only for a UDP client: over TCP the size a query's OPT record advertises for UDP does not apply, and a truncated TCP reply
    announces records in its header that are not in the message"""
    r = Rule("C35-truncate-udp-only", "K6", "format_response truncates (TC) exactly when the client came over UDP and the encoded reply exceeds the size it can take", floor=20)
    f = P.fn("evdns_server_request_format_response")
    brs = [b for b in f.branch_blocks() if any(is_e(q, "fld") and q[2].endswith(".max_udp_reply_size") for q in walk(b.term["cond"]))]
    clamp = [el for el, lhs, op, rhs in f.stores() if is_e(strip(lhs), "var") and is_e(strip(rhs), "fld") and strip(rhs)[2].endswith(".max_udp_reply_size")]
    fin = [el for el, lhs, op, rhs in f.stores() if is_e(strip(lhs), "fld") and strip(lhs)[2].endswith(".response_len")]
    if len(brs) != 1 or len(clamp) != 1 or len(fin) != 1:
        r.brk("truncation test / clamp / final length store not found (%d/%d/%d)" % (len(brs), len(clamp), len(fin)))
        return r
    jv = strip(clamp[0].e[2])[1]
    reqv = ["var", f.params[0][0], "param"]
    kmax = nkey(["fld", reqv, "server_request.max_udp_reply_size", "->"])
    kcl = nkey(["fld", reqv, "server_request.client", "->"])
    start = (brs[0].id, len(brs[0].elems))
    for client in (0, 7):
        for mx in (512, 1232, 4096, 65535):
            for j in (100, 512, 513, 2000, 5000, 65535):
                env = {"#typed": 1, f.params[0][0]: 1, jv: j, kmax: mx, kcl: client}
                got = set()
                for o in run_all(f, start, env, lambda el: el is clamp[0] or el is fin[0], P, lambda el, e_: None, max_steps=100):
                    if o.kind != "stop":
                        r.brk("truncation decision: %s %s" % (o.kind, o.why))
                        return r
                    got.add(o.at is clamp[0])
                want = (client == 0) and j > mx
                r.inst((client, mx, j), {"transport": "tcp" if client else "udp", "advertised_udp_size": mx, "encoded_length": j, "truncates": sorted(got)})
                if got != {want}:
                    r.bad("K6:evdns_server_request_format_response:truncation-udp-only", "%s:%d" % (f.file, brs[0].term["loc"][0]), f.name,
                          "%s client, advertised UDP size %d, reply of %d bytes: %s; a reply is truncated iff it goes over UDP and is longer than the client can take" % ("TCP" if client else "UDP", mx, j, "truncated" if True in got else "not truncated"))
    seen, uniq = set(), []
    for f_ in r.findings:
        if f_.key not in seen:
            seen.add(f_.key)
            uniq.append(f_)
    r.findings = uniq
    return r


def run(ctx, config):
    P = ctx.prog(UNITS, config)
    rules = []
    rules.append(E.rule_output(P, [("dnsname_to_labels", "buf", ["buf_len"]), ("evdns_server_request_format_response", "buf", ["buf_len"])], "C35-output", floor=20))
    rules.append(E.rule_labels(P, "C35-labels"))
    rules.append(E.rule_errprop(P, ["evdns_server_request_format_response"], "C35-errprop"))
    # truncation: the TC bit and the size clamp are applied on the overflow path
    r = Rule("C35-truncate", "K3", "an overflowing response is cut to the client's limit with the TC bit set", floor=1)
    f = P.fn("evdns_server_request_format_response")
    tc = [el for el in f.elems() if el.e[0] == "asg" and el.e[1] == "|=" and is_e(strip(el.e[2]), "idx") and is_e(strip(el.e[3]), "int") and strip(el.e[3])[1] == 0x02]
    clamp = [el for el, lhs, op, rhs in f.stores() if is_e(strip(lhs), "var") and strip(lhs)[1] == "j" and is_e(strip(rhs), "fld") and strip(rhs)[2].endswith("max_udp_reply_size")]
    r.inst("tc", {"tc_bit_stores": [e.where() for e in tc], "clamps": [e.where() for e in clamp]})
    if len(tc) != 1 or len(clamp) != 1 or tc[0].bid != clamp[0].bid:
        r.bad("K3:evdns_server_request_format_response:truncation", "%s:%d" % (f.file, f.line), f.name, "overflow path does not both clamp the length and set TC")
    rules.append(r)
    rules.append(rule_sections(P))
    rules.append(rule_truncate(P))
    return rules



def rule_sections(P):
    """evdns_server_request_add_reply evaluated on an abstract heap for every sequence of up to three additions over the three sections: afterwards each
    section's list holds exactly the records added to that section, in order of addition, its count equals the length of its list, other sections untouched"""
    import itertools
    r = Rule("C35-sections", "K6", "server replies: a record added to a section is linked at the tail of that section's list and counted there (all sequences of <= 3 additions)", floor=30)
    f = P.fn("evdns_server_request_add_reply")
    enumv = {}
    for e in P.enums.values():
        for n, v in e["items"]:
            enumv[n] = v
    from .C27 import macro_consts
    mc = {}
    for g in [f]:
        for el in list(g.elems()):
            for q in walk(el.e):
                if is_e(q, "int") and len(q) > 2 and isinstance(q[2], str) and q[2].startswith("EVDNS_") and q[2].endswith("_SECTION"):
                    mc[q[2]] = q[1]
        for b in g.blocks.values():
            if b.label and b.label[0] == "case" and len(b.label) > 2 and isinstance(b.label[2], str) and b.label[2].endswith("_SECTION"):
                mc[b.label[2]] = b.label[1]
    SEC = [("answer", mc.get("EVDNS_ANSWER_SECTION", 0)), ("authority", mc.get("EVDNS_AUTHORITY_SECTION", 1)), ("additional", mc.get("EVDNS_ADDITIONAL_SECTION", 2))]
    # start after the container_of declaration of `req`
    start = None
    for el in f.elems():
        if el.e[0] == "decl" and el.e[1] == "req":
            start = (el.bid, el.idx + 1)
    if start is None:
        r.brk("declaration of req not found in evdns_server_request_add_reply")
        return r
    C = lambda o, fl: ("@", o, "server_request.%s" % fl)
    I = lambda o, fl: ("@", o, "server_reply_item.%s" % fl)
    nb = 0
    for ln in (1, 2, 3):
        for seq in itertools.product(range(3), repeat=ln):
            env = {("@", "req", "#zero"): 1, ("@", "port", "#zero"): 1, C("req", "port"): PPtr("port"), C("req", "response"): 0,
                   C("req", "answer"): 0, C("req", "authority"): 0, C("req", "additional"): 0, C("req", "n_answer"): 0, C("req", "n_authority"): 0, C("req", "n_additional"): 0,
                   ("@", "port", "evdns_server_port.lock"): 0}
            ok = True
            for step, sidx in enumerate(seq):
                e0 = dict(env)
                e0.update({"#typed": 1, "req": PPtr("req"), "event_debug_logging_mask_": 0, "result": -1})
                vals = [0, SEC[sidx][1], 7000, 1, 1, 100 + step, 0, 0, 0]
                for (pn, pt), v in zip(f.params, vals):
                    e0[pn] = v

                def hook(el, e_):
                    n = callee_name(el.e)
                    if n in ("event_mm_malloc_",):
                        k = e_.get("#nalloc", 0)
                        e_["#nalloc"] = k + 1
                        e_[("@", ("n", k), "#zero")] = 1
                        return PPtr(("n", k))
                    if n in ("event_mm_strdup_",):
                        return 8000
                    if n in ("event_mm_free_", "evthread_is_debug_lock_held_"):
                        return 0
                    return None
                outs = [o for o in run_all(f, start, e0, lambda el: False, P, hook, max_steps=400) if not (o.kind == "exit" and o.why == "noreturn")]
                if len(outs) != 1 or outs[0].kind != "ret":
                    r.brk("evdns_server_request_add_reply%s: %s" % (list(seq), [(o.kind, o.why) for o in outs][:2]))
                    return r
                env = dict((k, v) for k, v in outs[0].env.items() if (isinstance(k, tuple) and k and k[0] == "@") or k == "#nalloc")
            # read the lists back
            got = {}
            for name, _ in SEC:
                lst = []
                p = env.get(C("req", name))
                seen = 0
                while isinstance(p, PPtr) and seen < 8:
                    lst.append(env.get(I(p.id, "ttl")))
                    p = env.get(I(p.id, "next"), 0)
                    seen += 1
                got[name] = (lst, env.get(C("req", "n_" + name)))
            want = {}
            for name, _ in SEC:
                ttls = [100 + st for st, sidx in enumerate(seq) if SEC[sidx][0] == name]
                want[name] = (ttls, len(ttls))
            r.inst(seq, {"additions": [SEC[s_][0] for s_ in seq], "lists": {k: v[0] for k, v in got.items()}, "counts": {k: v[1] for k, v in got.items()}})
            if got != want and nb < 5:
                nb += 1
                r.bad("K6:evdns_server_request_add_reply:section-lists", "%s:%d" % (f.file, f.line), f.name,
                      "after adding records to %s (ttl 100, 101, ...) the sections hold %s; each section must hold exactly its own records in order of addition, counted: %s" % (
                          [SEC[s_][0] for s_ in seq], got, want))
    return r
