"""C35 — DNS server responses encode exactly the records that were added: encoder bounds, label limits, compression range, error propagation."""
from ..core import Rule
from ..prog import *
from ..facts import AnalysisBroken
from .. import dnsenc as E

UNITS = ["evdns"]
LEVEL = "other"
EXPLANATION = ("K4: every write into the response buffer in dnsname_to_labels and evdns_server_request_format_response (APPEND16/32 expansions, label "
               "length bytes, label copies, record data, the back-patched RDLENGTH) is dominated by a capacity test that covers index+size, allowing "
               "for positive increments of the index since the test, or by a later successful bounded encoder call starting beyond it; label <= 63 and "
               "name <= 255 rejections dominate emission; a position is recorded for name compression only when a 14-bit pointer can hold it and pointers "
               "carry the 0xc0 marker. K12: a negative encoder result truncates the response instead of being used as an offset. Found and repaired two "
               "genuine defects (unguarded terminating zero label: 1-byte stack overflow; compression positions >= 0x4000). Decoding equivalence of whole "
               "responses is declined.")
ASSUMPTIONS = []
CONFIGS = ["build", "assert"]


def run(ctx, config):
    P = ctx.prog(UNITS, config)
    rules = []
    rules.append(E.rule_output(P, [("dnsname_to_labels", "buf", ["buf_len"]), ("evdns_server_request_format_response", "buf", ["buf_len"])], "C35-output", floor=20))
    rules.append(E.rule_labels(P, "C35-labels"))
    rules.append(E.rule_errprop(P, ["evdns_server_request_format_response"], "C35-errprop"))
    # truncation: the TC bit and the size clamp are applied on the overflow path
    r = Rule("C35-truncate", "K3", "an overflowing response is cut to the client's limit with the TC bit set", floor=1)
    f = P.fn("evdns_server_request_format_response")
    tc = [el for el in f.elems() if el.e[0] == "asg" and el.e[1] == "|=" and is_e(strip(el.e[2]), "idx") and is_e(strip(el.e[3]), "int") and strip(el.e[3])[1] == 0x02]
    clamp = [el for el, lhs, op, rhs in f.stores() if is_e(strip(lhs), "var") and strip(lhs)[1] == "j" and is_e(strip(rhs), "fld") and strip(rhs)[2].endswith("max_udp_reply_size")]
    r.inst("tc", {"tc_bit_stores": [e.where() for e in tc], "clamps": [e.where() for e in clamp]})
    if len(tc) != 1 or len(clamp) != 1 or tc[0].bid != clamp[0].bid:
        r.bad("K3:evdns_server_request_format_response:truncation", "%s:%d" % (f.file, f.line), f.name, "overflow path does not both clamp the length and set TC")
    rules.append(r)
    return rules
