"""C21 — token-bucket refill: guard shape and channel purity (K4/K7); bit-exact overflow freedom is declined."""
from ..core import Rule
from ..prog import *
from ..facts import AnalysisBroken
from ..interp import normx, nkey, run_all

UNITS = ["bufferevent_ratelim"]
LEVEL = "other"
EXPLANATION = ("K4/K7 in ev_token_bucket_update_: n_ticks is current_tick - last_updated; every store through `bucket` is dominated by the failing edge of "
               "(n_ticks == 0 || n_ticks > INT_MAX); per channel (read, write) the multiplication n_ticks * rate and the addition to the limit are "
               "reachable only through the false edge of (maximum - limit) / n_ticks < rate, the true edge stores the maximum, and no operand of one channel "
               "appears in the other channel's test or stores (twin comparison modulo the read<->write renaming); last_updated is set to current_tick. "
               "ev_token_bucket_init_ clamps each limit by its own maximum. ev_token_bucket_cfg_new allocates only after all rejection tests (rate > burst, "
               "rate < 1, any value > EV_RATE_LIMIT_MAX, tick length bounds, zero-length tick). Decides the guard structure that makes the refill safe; that the "
               "arithmetic cannot overflow for all 64-bit values would need bit-precise reasoning (a solver: another technique family) and is declined.")
ASSUMPTIONS = []
CONFIGS = ["build", "assert"]


def chan(fieldname):
    n = fieldname.split(".")[-1]
    if n.startswith("read_"):
        return "read", n[5:]
    if n.startswith("write_"):
        return "write", n[6:]
    return None, n


def rule_tick_eval(P):
    """the tick number the refill is fed with: differences of tick numbers are elapsed ticks, also across the instants where the millisecond clock passes a multiple of 2^32"""
    r = Rule("C21-tick-eval", "K6", "ev_token_bucket_get_tick_: the difference (mod 2^32) of the tick numbers of two instants is the number of ticks that elapsed between them", floor=200)
    f = P.fn("ev_token_bucket_get_tick_")
    tv = ["var", f.params[0][0], "param"]
    c = ["var", f.params[1][0], "param"]
    kmpt = nkey(["fld", c, "ev_token_bucket_cfg.msec_per_tick", "->"])
    ksec = nkey(["fld", tv, "timeval.tv_sec", "->"])
    kus = nkey(["fld", tv, "timeval.tv_usec", "->"])

    def tick(ms, sub, mpt):
        env = {"#typed": 1, tv[1]: 1, c[1]: 2, kmpt: mpt, ksec: ms // 1000, kus: (ms % 1000) * 1000 + sub}
        outs = [o for o in run_all(f, (f.entry, 0), env, lambda el: False, P, lambda el, e_: None, max_steps=100) if not (o.kind == "exit" and o.why == "noreturn")]
        if len(outs) != 1 or outs[0].kind != "ret":
            raise AnalysisBroken("ev_token_bucket_get_tick_ not evaluable: %s" % [(o.kind, o.why) for o in outs][:2])
        v = tevalx(normx(outs[0].at.e[1]), outs[0].env, P, f)
        if not isinstance(v, int):
            raise AnalysisBroken("ev_token_bucket_get_tick_: no value")
        return v & 0xffffffff
    nb = 0
    W = 1 << 32
    pairs = [(1000, 1000), (1000, 1999), (1000, 2000), (0, 7001), (123456, 987654)]
    for k in (1, 2, 417, 1 << 20):
        pairs += [(k * W - 300, k * W - 1), (k * W - 300, k * W), (k * W - 300, k * W + 200), (k * W - 1, k * W), (k * W, k * W + 14000), (k * W - 20000, k * W + 20000)]
    try:
        for mpt in (1, 2, 50, 1000, 7000, 86400000):
            for m1, m2 in pairs:
                for sub in (0, 999):
                    t1, t2 = tick(m1, sub, mpt), tick(m2, 0 if m1 == m2 else sub, mpt)
                    d = (t2 - t1) & 0xffffffff
                    lo, hi = (m2 - m1) // mpt, -((m1 - m2) // mpt)
                    r.inst((mpt, m1, m2, sub), {"msec_per_tick": mpt, "first_instant_ms": m1, "second_instant_ms": m2, "tick_difference": d, "elapsed_ticks_between": [lo, hi]})
                    if not (lo <= d <= hi) and nb < 4:
                        nb += 1
                        r.bad("K6:ev_token_bucket_get_tick_:tick-difference", "%s:%d" % (f.file, f.line), f.name,
                              "tick length %d ms: instants %d ms and %d ms are %d..%d ticks apart, the tick numbers %d and %d differ by %d: the refill is fed a tick count that is not the "
                              "time that passed (a difference above 2^31 is taken for time running backwards and the refill is dropped)" % (mpt, m1, m2, lo, hi, t1, t2, d))
    except AnalysisBroken as ex:
        r.brk(str(ex))
    return r


def run(ctx, config):
    P = ctx.prog(UNITS, config)
    rules = []
    f = P.fn("ev_token_bucket_update_")
    bucket, cfg, tick = f.params[0][0], f.params[1][0], f.params[2][0]
    r = Rule("C21-refill", "K4/K7", "refill: tick guard dominates all bucket stores; per channel the product is guarded by the quotient test; channels do not mix", floor=8)
    # n_ticks definition
    nt = [(el, rhs) for el, rhs in f.var_stores("n_ticks")]
    okd = len(nt) == 1 and is_e(strip(nt[0][1]), "bin") and strip(nt[0][1])[1] == "-" and eq(strip(nt[0][1])[2], ["var", tick, "param"]) and \
        is_e(strip(strip(nt[0][1])[3]), "fld") and strip(strip(nt[0][1])[3])[2].endswith(".last_updated")
    r.inst("n_ticks", {"definition": show(nt[0][0].e) if nt else None, "is_current_minus_last": okd})
    if not okd:
        r.bad("K4:ev_token_bucket_update_:n_ticks-definition", "%s:%d" % (f.file, f.line), f.name, "n_ticks is not current_tick - bucket->last_updated")
    bstores = [(el, strip(lhs), op, rhs) for el, lhs, op, rhs in f.stores() if is_e(strip(lhs), "fld") and root_var(lhs) is not None and root_var(lhs)[1] == bucket]
    for el, l, op, rhs in bstores:
        gs = [negate_truth(c, t) for c, t, _ in f.guards_at(el.bid)]
        z = any((not t) and is_e(strip(c), "bin") and strip(c)[1] == "==" and eq(strip(c)[2], ["var", "n_ticks", "local"]) and is_e(strip(strip(c)[3]), "int") and strip(strip(c)[3])[1] == 0 for c, t in gs) or \
            any(t and eq(strip(c), ["var", "n_ticks", "local"]) for c, t in gs)
        big = any((not t) and is_e(strip(c), "bin") and strip(c)[1] == ">" and eq(strip(c)[2], ["var", "n_ticks", "local"]) and is_e(strip(strip(c)[3]), "int") and strip(strip(c)[3])[1] == 0x7fffffff for c, t in gs)
        r.inst(("store", el.n), {"site": el.where(), "store": show(el.e), "after_n_ticks_nonzero": z, "after_n_ticks_le_INT_MAX": big})
        if not (z and big):
            r.bad("K4:ev_token_bucket_update_:store-before-tick-guard:%s" % l[2].split(".")[-1], el.where(), f.name,
                  "%s is stored without the (n_ticks == 0 || n_ticks > INT_MAX) rejection dominating it (division by zero / time rolled back)" % show(l))
    # channels
    tests = {}
    for b in f.branch_blocks():
        c = strip(b.term["cond"])
        if is_e(c, "bin") and c[1] == "<" and is_e(strip(c[2]), "bin") and strip(c[2])[1] == "/":
            flds = [q[2] for q in walk(c) if is_e(q, "fld")]
            chans = set(chan(x)[0] for x in flds)
            roles = sorted(chan(x)[1] for x in flds)
            num = strip(strip(c[2])[2])
            shape = is_e(num, "bin") and num[1] == "-" and chan(strip(num[2])[2])[1] == "maximum" and chan(strip(num[3])[2])[1] == "limit" and \
                eq(strip(strip(c[2])[3]), ["var", "n_ticks", "local"]) and chan(strip(c[3])[2])[1] == "rate"
            if len(chans) == 1:
                tests[chans.pop()] = (b, shape, roles)
            else:
                r.bad("K7:ev_token_bucket_update_:channel-mix-in-test", "%s:%d" % (f.file, b.term["loc"][0]), f.name, "the overflow test mixes read and write fields: %s" % show(c))
    for ch in ("read", "write"):
        if ch not in tests:
            r.inst(("test", ch), {"channel": ch, "test": None, "note": "quotient test not recognised syntactically; the arithmetic is decided by C21-refill-eval"}, nontrivial=False)
            continue
        b, shape, roles = tests[ch]
        r.inst(("test", ch), {"channel": ch, "test": show(b.term["cond"]), "shape_ok": shape})
        # the shape is informational: whether the test is the right one is decided by evaluation (C21-refill-eval)
        tsucc = [s for s, l in b.succ if l == "T"][0]
        fsucc = [s for s, l in b.succ if l == "F"][0]
        for el, l, op, rhs in bstores:
            c2, role = chan(l[2])
            if c2 != ch or role != "limit":
                continue
            flds = set(chan(q[2])[0] for q in walk(rhs) if is_e(q, "fld")) - {None}
            if flds - {ch}:
                r.bad("K7:ev_token_bucket_update_:%s:cross-channel-store" % ch, el.where(), f.name, "%s is computed from the other channel: %s" % (show(l), show(el.e)))
            if op == "+=":
                ok = f.dominates(fsucc, el.bid) and not f.dominates(tsucc, el.bid)
                mul = is_e(strip(rhs), "bin") and strip(rhs)[1] == "*" and any(eq(strip(x), ["var", "n_ticks", "local"]) for x in strip(rhs)[2:4]) and \
                    any(is_e(strip(x), "fld") and chan(strip(x)[2]) == (ch, "rate") for x in strip(rhs)[2:4])
                r.inst(("add", ch), {"site": el.where(), "store": show(el.e), "only_on_false_edge_of_test": ok, "is_n_ticks_times_own_rate": mul})
                if not ok:
                    r.bad("K4:ev_token_bucket_update_:%s:product-unguarded" % ch, el.where(), f.name,
                          "n_ticks * rate is added to the %s limit on a path that did not take the false edge of the overflow test" % ch)
                if not mul:
                    r.bad("K7:ev_token_bucket_update_:%s:refill-amount" % ch, el.where(), f.name, "the %s limit is not refilled by n_ticks * its own rate" % ch)
            elif op == "=":
                ok = f.dominates(tsucc, el.bid) and is_e(strip(rhs), "fld") and chan(strip(rhs)[2]) == (ch, "maximum")
                r.inst(("clamp", ch), {"site": el.where(), "store": show(el.e), "on_true_edge_with_own_maximum": ok})
                if not ok:
                    r.bad("K4:ev_token_bucket_update_:%s:clamp" % ch, el.where(), f.name, "on the overflow edge the %s limit must become its own maximum" % ch)
    lu = [el for el, l, op, rhs in bstores if l[2].endswith(".last_updated") and eq(strip(rhs), ["var", tick, "param"])]
    r.inst("last_updated", {"stores": [show(e.e) for e in lu]})
    if len(lu) != 1:
        r.bad("K4:ev_token_bucket_update_:last_updated", "%s:%d" % (f.file, f.line), f.name, "last_updated is not set to current_tick exactly once")
    rules.append(r)

    r2 = Rule("C21-cfg", "K4", "ev_token_bucket_cfg_new allocates only after every rejection test; init clamps each limit by its own maximum", floor=8)
    g = P.fn("ev_token_bucket_cfg_new")
    allocs = [el for el in g.calls() if callee_name(el.e) in ("event_mm_calloc_", "calloc", "event_mm_malloc_")]
    if len(allocs) != 1:
        r2.brk("allocation in ev_token_bucket_cfg_new not found")
    else:
        a = allocs[0]
        # which configurations are accepted: decided by evaluating the function, not by the spelling of its tests
        from ..prog import PPtr
        MAXR = (1 << 63) - 1
        INTMAX = (1 << 31) - 1
        vals = (0, 1, 5, MAXR, MAXR + 1)
        ticks = [(1, 0), (0, 0), (0, 500), (0, 1000), (-1, 0), (INTMAX // 1000, 0), (INTMAX // 1000 + 1, 0)]
        combos = [(rr, rb, wr, wb, (1, 0)) for rr in vals for rb in vals for wr in vals for wb in vals] + [(1, 5, 1, 5, t) for t in ticks]
        names = [p[0] for p in g.params[:5]]
        nb = 0
        for rr, rb, wr, wb, (sec, usec) in combos:
            env = {"#typed": 1, "event_debug_logging_mask_": 0, names[0]: rr, names[1]: rb, names[2]: wr, names[3]: wb, names[4]: PPtr("tv"), ("@", "tv", "timeval.tv_sec"): sec, ("@", "tv", "timeval.tv_usec"): usec}

            def hook(el, e_):
                n = callee_name(el.e)
                if n in ("event_mm_calloc_", "calloc", "event_mm_malloc_"):
                    e_[("@", "cfg", "#zero")] = 1
                    return PPtr("cfg")
                if n in ("memcpy", "__builtin_memcpy", "__builtin___memcpy_chk"):
                    return 0
                return None
            got = set()
            for o in run_all(g, (g.entry, 0), env, lambda el: False, P, hook, max_steps=400):
                if o.kind == "exit" and o.why == "noreturn":
                    continue
                if o.kind != "ret":
                    r2.brk("ev_token_bucket_cfg_new%r: %s %s" % ((rr, rb, wr, wb, sec, usec), o.kind, o.why))
                    break
                try:
                    got.add(isinstance(evalx(normx(o.at.e[1]), o.env, P), PPtr))
                except EvalError as ex:
                    r2.brk("ev_token_bucket_cfg_new: return value: %s" % ex)
                    break
            msec = (sec * 1000 + (usec & 0x000fffff) // 1000) if 0 <= sec <= INTMAX // 1000 else 0
            want = rr <= rb and wr <= wb and rr >= 1 and wr >= 1 and max(rr, rb, wr, wb) <= MAXR and 0 <= sec <= INTMAX // 1000 and msec != 0
            r2.inst(("cfg", rr, rb, wr, wb, sec, usec), {"read_rate": rr, "read_burst": rb, "write_rate": wr, "write_burst": wb, "tick": [sec, usec], "accepted": sorted(got)} if nb < 4 else None)
            if got and got != {want} and nb < 6:
                nb += 1
                r2.bad("K4:ev_token_bucket_cfg_new:accepts", a.where(), g.name, "rates %d/%d, bursts %d/%d, tick %d.%06d s: %s; a configuration is valid iff 1 <= rate <= burst <= EV_RATE_LIMIT_MAX for both directions and the tick is 1 ms .. INT_MAX/1000 s" % (
                    rr, wr, rb, wb, sec, usec, "accepted" if True in got else "refused"))
    h = P.fn("ev_token_bucket_init_")
    for b in h.branch_blocks():
        c = strip(b.term["cond"])
        if is_e(c, "bin") and c[1] == ">" and any(is_e(q, "fld") and chan(q[2])[1] == "limit" for q in walk(c)):
            chans = set(chan(q[2])[0] for q in walk(c) if is_e(q, "fld")) - {None}
            tsucc = [s for s, l in b.succ if l == "T"][0]
            sts = [el for el, lhs, op, rhs in h.stores() if h.dominates(tsucc, el.bid) and is_e(strip(lhs), "fld") and chan(strip(lhs)[2])[1] == "limit"]
            ok = len(chans) == 1 and len(sts) == 1 and set(chan(q[2])[0] for q in walk(sts[0].e) if is_e(q, "fld")) - {None} == chans
            r2.inst(("clamp", b.id), {"test": show(c), "store": show(sts[0].e) if sts else None, "same_channel": ok})
            if not ok:
                r2.bad("K7:ev_token_bucket_init_:clamp-channel", "%s:%d" % (h.file, b.term["loc"][0]), h.name, "a limit is clamped with the other channel's maximum")
    rules.append(r2)
    rules.append(rule_refill_eval(P))
    rules.append(rule_tick_eval(P))
    from .C22 import rule_clip_eval
    rules.append(rule_clip_eval(P, "C21-reinit"))
    return rules


def rule_refill_eval(P):
    """the refill arithmetic itself, by typed evaluation (C integer conversions, wrap-around) on a domain that contains the extremes"""
    r = Rule("C21-refill-eval", "K6", "ev_token_bucket_update_ computes min(maximum, limit + n_ticks * rate) without wrap-around on the extreme-value domain", floor=300)
    f = P.fn("ev_token_bucket_update_")
    b = ["var", f.params[0][0], "param"]
    c = ["var", f.params[1][0], "param"]
    tick = f.params[2][0]
    K = lambda base, fld, rec: nkey(["fld", base, "%s.%s" % (rec, fld), "->"])
    MAXV = (1 << 63) - 1
    nb = 0
    for mx in (1, 1000, 1 << 62, MAXV):
        for rate in sorted(set(x for x in (1, 1000, mx) if 1 <= x <= mx)):
            for lim in sorted(set(x for x in (-(1 << 63) + 1, -(1 << 62), -4000, -1, 0, mx - 1, mx) if x <= mx)):
                for n in (0, 1, 3, (1 << 31) - 1, 1 << 31):
                    for ch in ("read", "write"):
                        oth = "write" if ch == "read" else "read"
                        last = 0xfffffff0
                        env = {"#typed": 1, b[1]: 1, c[1]: 2, tick: (last + n) & 0xffffffff,
                               K(b, "last_updated", "ev_token_bucket"): last,
                               K(b, ch + "_limit", "ev_token_bucket"): lim, K(b, oth + "_limit", "ev_token_bucket"): 7,
                               K(c, ch + "_maximum", "ev_token_bucket_cfg"): mx, K(c, ch + "_rate", "ev_token_bucket_cfg"): rate,
                               K(c, oth + "_maximum", "ev_token_bucket_cfg"): 50, K(c, oth + "_rate", "ev_token_bucket_cfg"): 5}
                        outs = [o for o in run_all(f, (f.entry, 0), env, lambda el: False, P, lambda el, e_: None, max_steps=200) if not (o.kind == "exit" and o.why == "noreturn")]
                        if len(outs) != 1 or outs[0].kind != "ret":
                            r.brk("ev_token_bucket_update_ not evaluable (max=%d rate=%d limit=%d n=%d): %s" % (mx, rate, lim, n, [(o.kind, o.why) for o in outs][:2]))
                            return r
                        o = outs[0]
                        got = o.env.get(K(b, ch + "_limit", "ev_token_bucket"))
                        got_o = o.env.get(K(b, oth + "_limit", "ev_token_bucket"))
                        if n == 0 or n > 0x7fffffff:
                            want, want_o = lim, 7
                        else:
                            want = min(mx, lim + n * rate)
                            want_o = min(50, 7 + n * 5)
                        r.inst((mx, rate, lim, n, ch), {"channel": ch, "maximum": mx, "rate": rate, "limit": lim, "ticks": n, "new_limit": got, "exact": want})
                        if (got != want or got_o != want_o) and nb < 6:
                            nb += 1
                            r.bad("K6:ev_token_bucket_update_:%s:refill-arithmetic" % ch, "%s:%d" % (f.file, f.line), f.name,
                                  "%s channel: maximum=%d rate=%d limit=%d after %d ticks becomes %s (other channel %s); exact arithmetic gives %d (other %d)" % (ch, mx, rate, lim, n, got, got_o, want, want_o))
    return r
