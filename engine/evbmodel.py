"""One-step refinement of evbuffer operations against the byte-string reference model, on abstract heap images (C12 / C14).

For every operation in OPS and every buffer layout in LAYOUTS the real function of buffer.c (and every buffer.c function it calls) is evaluated from the
extracted CFGs on the abstract heap (engine/evbheap.py): chains are heap objects, storage bytes are symbolic values, allocation / release / memcpy act on
that heap.  Afterwards:
  * the representation invariant of struct evbuffer holds (sizes within storage, total_len, last, *last_with_datap, acyclic list),
  * the byte string held by the buffer, the return value and what was copied out are those of the byte-string model,
  * no copy left the storage of a live chain, nothing freed was touched again, nothing was freed twice.
With an allocation made to fail (C14): the call reports failure and buffer contents/length are unchanged, or it reports success with its full effect.
"""
from .prog import *
from .prog import PPtr, PRef, FREED
from .interp import normx, nkey, run_all
from . import evbheap as HB

LAYOUTS = [
    ("empty, no chain", [], 0),
    ("one chain, data at start", [dict(buffer_len=100, off=40)], 0),
    ("one chain, misaligned", [dict(buffer_len=100, misalign=20, off=30)], 0),
    ("one chain, misaligned, full to the end", [dict(buffer_len=100, misalign=20, off=80)], 0),
    ("full chain + partly filled chain", [dict(buffer_len=100, off=100), dict(buffer_len=100, off=30)], 1),
    ("misaligned full-to-end chain + partly filled chain", [dict(buffer_len=100, misalign=20, off=80), dict(buffer_len=100, off=30)], 1),
    ("three chains, last empty", [dict(buffer_len=100, off=10), dict(buffer_len=100, misalign=5, off=20), dict(buffer_len=100, off=0)], 1),
    ("one empty chain", [dict(buffer_len=100, off=0)], 0),
    # what evbuffer_prepend leaves behind when the data does not fit and the second chain cannot be allocated: misalign moved to the end of the empty chain
    ("one empty chain, misaligned to its end", [dict(buffer_len=100, misalign=100, off=0)], 0),
]


def base_env(P, chains, lwd, name="buf"):
    env = HB.build(chains, lwd, name=name)
    if name != "buf":
        # second buffer: move its chain storage away from the first buffer's
        for k in range(len(chains)):
            o = "%s.c%d" % (name, k)
            env[HB.cell(o, "evbuffer_chain", "buffer")] = HB.BASE * (10 + k)
    return env


def run_op(P, fname, params, env, fail_alloc=None, max_steps=3000):
    """-> list of (ret, env_after) ; raises ValueError(why) when the evaluation leaves the supported fragment"""
    f = P.fn(fname)
    e0 = dict(env)
    e0["#typed"] = 1
    e0["event_debug_logging_mask_"] = 0
    for (pn, pt), v in zip(f.params, params):
        e0[pn] = v
    hook = HB.make_hook(P, fail_alloc=fail_alloc)
    res = []
    for o in run_all(f, (f.entry, 0), e0, lambda el: False, P, hook, max_steps=max_steps):
        if o.kind == "exit" and o.why == "noreturn":
            continue
        if o.kind == "unknown":
            raise ValueError("%s %s" % (o.why, o.env.get("#err", "")))
        rv = None
        if o.kind == "ret" and len(o.at.e) > 1 and o.at.e[1] is not None:
            try:
                rv = tevalx(normx(o.at.e[1]), o.env, P, f)
            except EvalError as ex:
                raise ValueError("return value: %s" % ex)
        res.append((rv, o.env))
    return res


def sym(tag, n):
    return [(tag, i) for i in range(n)]


def check_after(env, name, want_content, added=None, deleted=None):
    bad = list(HB.invariant(env, name))
    if added is not None:
        na, nd = env.get(HB.cell(name, "evbuffer", "n_add_for_cb")), env.get(HB.cell(name, "evbuffer", "n_del_for_cb"))
        if na != added or nd != deleted:
            bad.append("pending callback counts are added=%s deleted=%s, the operation added %d and removed %d bytes" % (na, nd, added, deleted))
    try:
        got = HB.content(env, name)
    except ValueError as ex:
        return bad + [str(ex)]
    if got != want_content:
        k = next((i for i in range(min(len(got), len(want_content))) if got[i] != want_content[i]), min(len(got), len(want_content)))
        bad.append("content differs from the model at byte %d of %d (buffer holds %d bytes: has %r, model %r)" % (
            k, len(want_content), len(got), got[k] if k < len(got) else None, want_content[k] if k < len(want_content) else None))
    bad += list(env.get("#viol", ()))
    return bad


def cases(P):
    """yield (op, layout title, argument text, runner) where runner(fail_alloc) -> list of violation strings per outcome [(ret, [violations], nalloc)]"""
    for title, chains, lwd in LAYOUTS:
        total = sum(c.get("off", 0) for c in chains)
        first_off = chains[0].get("off", 0) if chains else 0
        last_space = (chains[lwd]["buffer_len"] - chains[lwd].get("misalign", 0) - chains[lwd].get("off", 0)) if chains else 0

        def fresh(two=False):
            env = base_env(P, chains, lwd)
            HB.seed_memory(env, "buf", "d")
            return env

        # ---- evbuffer_add
        for n in sorted(set([0, 1, last_space, last_space + 1, 25, 130])):
            def run(fail_alloc=None, n=n):
                env = fresh()
                for i in range(n):
                    env[("m", HB.USER_IN + i)] = ("in", i)
                out = []
                for rv, e2 in run_op(P, "evbuffer_add", [PPtr("buf"), HB.USER_IN, n], env, fail_alloc):
                    if rv == 0:
                        v = check_after(e2, "buf", sym("d", total) + sym("in", n), n, 0)
                    elif rv == -1 and fail_alloc is not None:
                        v = check_after(e2, "buf", sym("d", total), 0, 0)
                        v = ["after the failed call: " + x for x in v]
                    else:
                        v = ["returns %r" % (rv,)]
                    out.append((rv, v, e2.get("#nalloc", 0)))
                return out
            yield ("evbuffer_add", title, "datlen=%d" % n, run)
        # ---- evbuffer_prepend
        for n in sorted(set([0, 1, chains[0].get("misalign", 0) if chains else 0, (chains[0].get("misalign", 0) + 1) if chains else 2, 130])):
            def run(fail_alloc=None, n=n):
                env = fresh()
                for i in range(n):
                    env[("m", HB.USER_IN + i)] = ("in", i)
                out = []
                for rv, e2 in run_op(P, "evbuffer_prepend", [PPtr("buf"), HB.USER_IN, n], env, fail_alloc):
                    if rv == 0:
                        v = check_after(e2, "buf", sym("in", n) + sym("d", total), n, 0)
                    elif rv == -1 and fail_alloc is not None:
                        v = ["after the failed call: " + x for x in check_after(e2, "buf", sym("d", total), 0, 0)]
                    else:
                        v = ["returns %r" % (rv,)]
                    out.append((rv, v, e2.get("#nalloc", 0)))
                return out
            yield ("evbuffer_prepend", title, "datlen=%d" % n, run)
        # ---- evbuffer_drain
        for n in sorted(set([0, 1, first_off, first_off + 1, max(total - 1, 0), total, total + 5])):
            def run(fail_alloc=None, n=n):
                env = fresh()
                out = []
                for rv, e2 in run_op(P, "evbuffer_drain", [PPtr("buf"), n], env, fail_alloc):
                    v = check_after(e2, "buf", sym("d", total)[min(n, total):], 0, min(n, total)) if rv == 0 else ["returns %r" % (rv,)]
                    out.append((rv, v, e2.get("#nalloc", 0)))
                return out
            yield ("evbuffer_drain", title, "len=%d" % n, run)
        # ---- evbuffer_pullup
        for n in sorted(set([-1, 0, 1, first_off, first_off + 1, first_off + 5, total, total + 1])):
            def run(fail_alloc=None, n=n):
                env = fresh()
                out = []
                for rv, e2 in run_op(P, "evbuffer_pullup", [PPtr("buf"), n], env, fail_alloc):
                    size = total if n < 0 else n
                    v = check_after(e2, "buf", sym("d", total), 0, 0)
                    if fail_alloc is not None and (rv == 0 or rv is None):
                        v = ["after the failed call: " + x for x in v]
                    elif size == 0 or size > total:
                        if rv not in (0, None):
                            v.append("returns %r for a size the buffer cannot satisfy" % (rv,))
                    else:
                        try:
                            cl = HB.chain_list(e2, "buf")
                        except ValueError as ex:
                            cl = []
                            v.append(str(ex))
                        if cl:
                            f0 = cl[0][1]
                            if not (isinstance(rv, int) and rv == f0["buffer"] + f0["misalign"]):
                                v.append("returns %r, the first chain's data starts at %d" % (rv, f0["buffer"] + f0["misalign"]))
                            if f0["off"] < size:
                                v.append("first chain holds %d contiguous bytes, %d were asked for" % (f0["off"], size))
                    out.append((rv, v, e2.get("#nalloc", 0)))
                return out
            yield ("evbuffer_pullup", title, "size=%d" % n, run)
        # ---- evbuffer_copyout / evbuffer_remove
        for opn in ("evbuffer_copyout", "evbuffer_remove"):
            for n in sorted(set([0, 1, first_off, first_off + 1, total, total + 3])):
                def run(fail_alloc=None, n=n, opn=opn):
                    env = fresh()
                    out = []
                    for rv, e2 in run_op(P, opn, [PPtr("buf"), HB.USER_OUT, n], env, fail_alloc):
                        k = min(n, total)
                        v = check_after(e2, "buf", sym("d", total)[k:] if opn == "evbuffer_remove" else sym("d", total), 0, k if opn == "evbuffer_remove" else 0)
                        if rv != k:
                            v.append("returns %r, the model copies %d bytes" % (rv, k))
                        got = [e2.get(("m", HB.USER_OUT + i)) for i in range(k)]
                        if got != sym("d", total)[:k]:
                            v.append("bytes copied out differ from the first %d bytes of the buffer" % k)
                        out.append((rv, v, e2.get("#nalloc", 0)))
                    return out
                yield (opn, title, "datlen=%d" % n, run)
        # ---- evbuffer_expand
        for n in sorted(set([0, 1, last_space, last_space + 1, 300])):
            def run(fail_alloc=None, n=n):
                env = fresh()
                out = []
                for rv, e2 in run_op(P, "evbuffer_expand", [PPtr("buf"), n], env, fail_alloc):
                    v = check_after(e2, "buf", sym("d", total), 0, 0)
                    if rv == 0:
                        try:
                            cl = HB.chain_list(e2, "buf")
                            # some chain at or after the last data chain has n contiguous free bytes
                            withdata = [k for k, (i, f) in enumerate(cl) if f["off"] > 0]
                            st = withdata[-1] if withdata else 0
                            if n and not any(f["buffer_len"] - f["misalign"] - f["off"] >= n for i, f in cl[st:]):
                                v.append("reports success but no chain has %d contiguous free bytes" % n)
                        except ValueError as ex:
                            v.append(str(ex))
                    elif not (rv == -1 and fail_alloc is not None):
                        v.append("returns %r" % (rv,))
                    out.append((rv, v, e2.get("#nalloc", 0)))
                return out
            yield ("evbuffer_expand", title, "datlen=%d" % n, run)
        # ---- evbuffer_expand_fast_ (internal: used by evbuffer_read and evbuffer_reserve_space)
        for n in sorted(set([0, 1, last_space, last_space + 1, 150, 300, 3000])):
            for nv in (2, 4):      # the function requires n >= 2 (EVUTIL_ASSERT); its callers pass 2 or NUM_READ_IOVEC
                def run(fail_alloc=None, n=n, nv=nv):
                    env = fresh()
                    out = []
                    for rv, e2 in run_op(P, "evbuffer_expand_fast_", [PPtr("buf"), n, nv], env, fail_alloc):
                        v = check_after(e2, "buf", sym("d", total), 0, 0)
                        if rv == 0:
                            try:
                                cl = HB.chain_list(e2, "buf")
                                withdata = [k for k, (i, f) in enumerate(cl) if f["off"] > 0]
                                st = withdata[-1] if withdata else 0
                                free = [f["buffer_len"] - f["misalign"] - f["off"] for i, f in cl[st:]]
                                free = [x for x in free if x > 0][:nv]
                                if sum(free) < n:
                                    v.append("reports success but the first %d chains with room offer %d bytes, %d were asked for" % (nv, sum(free), n))
                            except ValueError as ex:
                                v.append(str(ex))
                        elif not (rv == -1 and fail_alloc is not None):
                            v.append("returns %r" % (rv,))
                        out.append((rv, v, e2.get("#nalloc", 0)))
                    return out
                yield ("evbuffer_expand_fast_", title, "datlen=%d n=%d" % (n, nv), run)
    # ---- two-buffer operations
    for t1, c1, l1 in LAYOUTS:
        for t2, c2, l2 in (LAYOUTS[0], LAYOUTS[2], LAYOUTS[4]):
            tot1 = sum(c.get("off", 0) for c in c1)
            tot2 = sum(c.get("off", 0) for c in c2)
            f1 = c1[0].get("off", 0) if c1 else 0

            def fresh2():
                env = base_env(P, c1, l1, "buf")
                env.update(base_env(P, c2, l2, "dst"))
                HB.seed_memory(env, "buf", "s")
                HB.seed_memory(env, "dst", "t")
                return env
            for n in sorted(set([0, 1, f1, f1 + 1, tot1, tot1 + 4])):
                def run(fail_alloc=None, n=n):
                    out = []
                    for rv, e2 in run_op(P, "evbuffer_remove_buffer", [PPtr("buf"), PPtr("dst"), n], fresh2(), fail_alloc):
                        k = min(n, tot1)
                        if rv == k or fail_alloc is None:
                            v = check_after(e2, "buf", sym("s", tot1)[k:], 0, k) + check_after(e2, "dst", sym("t", tot2) + sym("s", tot1)[:k], k, 0)
                            if rv != k:
                                v.append("returns %r, the model moves %d bytes" % (rv, k))
                        else:
                            # failure under allocation failure: nothing lost — the bytes are in src or dst, in order
                            try:
                                both = HB.content(e2, "dst") + HB.content(e2, "buf")
                            except ValueError as ex:
                                both = None
                            v = list(HB.invariant(e2, "buf")) + list(HB.invariant(e2, "dst")) + list(e2.get("#viol", ()))
                            if both != sym("t", tot2) + sym("s", tot1):
                                v.append("after the failed call bytes are lost or reordered between src and dst")
                        out.append((rv, v, e2.get("#nalloc", 0)))
                    return out
                yield ("evbuffer_remove_buffer", "src: %s / dst: %s" % (t1, t2), "datlen=%d" % n, run)
            for opn in ("evbuffer_add_buffer", "evbuffer_prepend_buffer"):
                def run(fail_alloc=None, opn=opn):
                    out = []
                    for rv, e2 in run_op(P, opn, [PPtr("dst"), PPtr("buf")], fresh2(), fail_alloc):
                        if rv == 0:
                            want = (sym("t", tot2) + sym("s", tot1)) if opn == "evbuffer_add_buffer" else (sym("s", tot1) + sym("t", tot2))
                            v = check_after(e2, "dst", want, tot1, 0) + check_after(e2, "buf", [], 0, tot1)
                        elif rv == -1 and fail_alloc is not None:
                            v = ["after the failed call: " + x for x in check_after(e2, "dst", sym("t", tot2)) + check_after(e2, "buf", sym("s", tot1))]
                        else:
                            v = ["returns %r" % (rv,)]
                        out.append((rv, v, e2.get("#nalloc", 0)))
                    return out
                yield (opn, "in: %s / out: %s" % (t1, t2), "", run)


def rule_model(P, rid, ops=None):
    from .core import Rule
    r = Rule(rid, "K6", "evbuffer operations refine the byte-string model and preserve the chain invariants on every layout of the family", floor=300)
    nb = 0
    for op, title, arg, run in cases(P):
        if ops and op not in ops:
            continue
        try:
            outs = run(None)
        except ValueError as ex:
            r.brk("%s(%s) on [%s]: %s" % (op, arg, title, ex))
            return r
        if not outs:
            r.brk("%s(%s) on [%s]: no outcome" % (op, arg, title))
            return r
        for rv, v, nalloc in outs:
            r.inst((op, title, arg, rv), {"op": op, "layout": title, "args": arg, "returns": rv if isinstance(rv, int) else repr(rv), "allocations": nalloc, "violations": v})
            if v and nb < 8:
                nb += 1
                f = P.fn(op)
                r.bad("K6:%s:model" % op, "%s:%d" % (f.file, f.line), op, "%s(%s) on a buffer [%s]: %s" % (op, arg, title, "; ".join(v[:3])))
    return r


def rule_oom(P, rid, ops=None):
    from .core import Rule
    r = Rule(rid, "K6", "with any single allocation failing, an evbuffer operation either fails leaving contents and structure as they were, or succeeds with its full effect", floor=40)
    nb = 0
    for op, title, arg, run in cases(P):
        if ops and op not in ops:
            continue
        try:
            base = run(None)
        except ValueError as ex:
            r.brk("%s(%s) on [%s]: %s" % (op, arg, title, ex))
            return r
        nall = max([n for _, _, n in base] or [0])
        for k in range(nall):
            try:
                outs = run(k)
            except ValueError as ex:
                msg = str(ex)
                if "use after free" in msg or "uninitialised heap cell" in msg:
                    outs = [(None, ["evaluation stopped: %s" % msg], 0)]
                else:
                    r.brk("%s(%s) on [%s] with allocation %d failing: %s" % (op, arg, title, k, ex))
                    return r
            for rv, v, nalloc in outs:
                r.inst((op, title, arg, k, rv), {"op": op, "layout": title, "args": arg, "failing_allocation": k, "returns": rv if isinstance(rv, int) else repr(rv), "violations": v})
                if v and nb < 8:
                    nb += 1
                    f = P.fn(op)
                    r.bad("K6:%s:alloc-failure" % op, "%s:%d" % (f.file, f.line), op, "%s(%s) on a buffer [%s] with allocation #%d failing: %s" % (op, arg, title, k, "; ".join(v[:3])))
    return r
