"""Failure edges of fallible calls (allocation failures and what propagates them), K5/K12 support.

 * roots: the allocator entry points (event_mm_malloc_/calloc_/realloc_/strdup_): may return NULL.
 * a call's *failure test* is the first branch after the call that tests its result (directly or through the
   variable it was assigned to) for NULL / negative / non-zero-error; its *failure edge* is the edge taken when
   the callee failed.
 * a function is (allocation-)fallible when some failure edge of a fallible callee reaches a return whose value
   is a failure value (NULL, a negative constant, or a variable that holds one on that path).
"""
import collections
from .prog import *
from .consts import ConstFlow

ALLOC_ROOTS = {"event_mm_malloc_": "ptr", "event_mm_calloc_": "ptr", "event_mm_realloc_": "ptr", "event_mm_strdup_": "ptr",
               # -DEVENT__DISABLE_MM_REPLACEMENT maps mm_* to the libc allocator
               "malloc": "ptr", "calloc": "ptr", "realloc": "ptr", "strdup": "ptr"}


def is_ptr_type(t):
    return t.strip().endswith("*")


class Fail(object):
    def __init__(self, P, fns, roots=None):
        self.P = P
        self.fns = list(fns)
        self.fallible = dict(roots or ALLOC_ROOTS)   # name -> "ptr" | "int"
        self.sites = {}      # (fn.name, elem.n) -> dict(call=el, var=..., block=..., fail_label=..., fail_succ=...)
        self.unchecked = {}  # (fn.name, elem.n) -> call elem  (result of a fallible call never tested)
        self._cf = {}
        self.propagated = set()
        self.infer()

    def cf(self, fn):
        k = (fn.name, fn.file)
        if k not in self._cf:
            self._cf[k] = ConstFlow(fn, self.P)
        return self._cf[k]

    # -- result binding and failure test
    def binding(self, fn, el):
        """variable that receives the call's value (same block, the next asg/decl containing the call), or None."""
        blk = fn.blocks[el.bid]
        for nx in blk.elems[el.idx + 1: el.idx + 3]:
            e = nx.e
            if e[0] == "decl" and is_e(strip(e[3]), "call") and eq(strip(e[3]), el.e):
                return ["var", e[1], "local"], nx
            if e[0] == "asg" and e[1] == "=" and is_e(strip(e[3]), "call") and eq(strip(e[3]), el.e):
                return strip(e[2]), nx
        return None, None

    def failure_test(self, fn, el, kind):
        """-> (block, fail_label) of the branch that tests the result, or None."""
        var, asg = self.binding(fn, el)

        def mentions(c):
            for s in walk(c):
                if is_e(s, "call") and eq(s, el.e):
                    return True
                if var is not None and eq(s, var):
                    return True
            return False

        def fail_truth(c):
            """truth value of cond c on which the callee is known to have failed; None if c is not a result test."""
            c0, t = negate_truth(c, True)     # c  <=> (c0 is truthy) == t
            c0 = strip(c0)
            target = None
            if is_e(c0, "call") and eq(c0, el.e):
                target = "v"
            elif var is not None and eq(c0, var):
                target = "v"
            elif is_e(c0, "asg") and c0[1] == "=" and is_e(strip(c0[3]), "call") and eq(strip(c0[3]), el.e):
                target = "v"
            if target:
                # c0 truthy  == success for pointers; for ints truthy == non-zero == error
                if kind == "ptr":
                    return not t      # cond true <=> v truthy == t ; failure <=> v falsy
                return t
            if is_e(c0, "bin") and c0[1] in ("<", "<=", "==", "!=", ">", ">=") and is_e(strip(c0[3]), "int"):
                l = strip(c0[2])
                isv = (is_e(l, "call") and eq(l, el.e)) or (var is not None and eq(l, var)) or \
                      (is_e(l, "asg") and is_e(strip(l[3]), "call") and eq(strip(l[3]), el.e))
                if isv:
                    k = strip(c0[3])[1]
                    op = c0[1]
                    # failure value for int kind is negative (typically -1)
                    if kind == "int":
                        if op == "<" and k <= 0: return t
                        if op == "<=" and k < 0: return t
                        if op == "==" and k < 0: return t
                        if op == "!=" and k < 0: return not t
                        if op == ">=" and k <= 0: return not t
                        if op == ">" and k < 0: return not t
                        if op == "==" and k == 0: return not t
                        if op == "!=" and k == 0: return t
            return None

        # search forward from the call: same block terminator, then blocks dominated by the call's block, nearest first
        seen = set()
        work = collections.deque([el.bid])
        first = True
        while work:
            b = work.popleft()
            if b in seen:
                continue
            seen.add(b)
            blk = fn.blocks[b]
            # a redefinition of the bound variable ends the search on this path
            killed = False
            for x in (blk.elems[el.idx + 1:] if b == el.bid else blk.elems):
                if x is asg:
                    continue
                if var is not None and x.e[0] in ("asg", "decl", "incdec"):
                    l = strip(x.e[2]) if x.e[0] == "asg" else (["var", x.e[1], "local"] if x.e[0] == "decl" else strip(x.e[3]))
                    if eq(l, var):
                        killed = True
                        break
            if killed:
                continue
            if blk.term and "cond" in blk.term and len(blk.succ) == 2:
                ft = fail_truth(blk.term["cond"])
                if ft is not None:
                    lab = "T" if ft else "F"
                    return blk, lab
                if mentions(blk.term["cond"]) and False:
                    return None
            if len(seen) > 12:
                break
            for s, l in blk.succ:
                if var is None and not first:
                    continue
                work.append(s)
            first = False
            if var is None:
                # a directly-tested call must be tested in its own block (or the short-circuit successor)
                if len(seen) > 2:
                    break
        return None

    def failure_returns(self, fn, blk, lab):
        """Returns reachable from the failure edge, with the possible values of a returned variable on those paths."""
        succ = [s for s, l in blk.succ if l == lab]
        if not succ:
            return []
        start = succ[0]
        cf = self.cf(fn)
        init_states = cf.states_at_term(blk.id) or {frozenset()}
        out = []
        seen = set()
        work = collections.deque((start, st) for st in init_states)
        n = 0
        while work and n < 4000:
            n += 1
            b, st = work.popleft()
            if (b, st) in seen:
                continue
            seen.add((b, st))
            cur = st
            bl = fn.blocks[b]
            done = False
            for x in bl.elems:
                if x.e[0] == "ret":
                    v = strip(x.e[1])
                    if is_e(v, "cond") and blk.term and "cond" in blk.term and eq(v[1], blk.term["cond"]):
                        # `return v ? a : b` split by the CFG at the tested condition itself
                        v = strip(v[2] if lab == "T" else v[3])
                    val = cf.val(v, cur) if not is_e(v, "null") else None
                    out.append((x, val, v))
                    done = True
                    break
                cur = cf.apply(x, cur)
            if done or bl.noreturn:
                continue
            for s, l in bl.succ:
                if l in ("T", "F") and bl.term and "cond" in bl.term:
                    vv = cf.val(bl.term["cond"], cur) if not any(q[0] in ("call", "asg", "incdec") for q in walk(bl.term["cond"])) else None
                    if vv is not None and bool(vv) != (l == "T"):
                        continue
                work.append((s, cur))
        return out

    def infer(self):
        changed = True
        rounds = 0
        while changed and rounds < 10:
            changed = False
            rounds += 1
            self.sites = {}
            self.unchecked = {}
            for fn in self.fns:
                for el in fn.calls():
                    n = callee_name(el.e)
                    if n not in self.fallible:
                        continue
                    kind = self.fallible[n]
                    ft = self.failure_test(fn, el, kind)
                    if ft is None:
                        self.unchecked[(fn.name, el.n)] = el
                        continue
                    blk, lab = ft
                    self.sites[(fn.name, el.n)] = {"fn": fn, "call": el, "block": blk, "label": lab, "kind": kind}
                    if fn.name in self.fallible:
                        continue
                    rets = self.failure_returns(fn, blk, lab)
                    for r, val, vexpr in rets:
                        isptr = is_ptr_type(fn.ret)
                        if val is not None and ((isptr and val == 0) or (not isptr and val < 0)):
                            self.fallible[fn.name] = "ptr" if isptr else "int"
                            changed = True
                            break
                # a function that returns a fallible callee's result directly
                if fn.name not in self.fallible:
                    for r in fn.returns():
                        v = strip(r.e[1])
                        if is_e(v, "call") and callee_name(v) in self.fallible and is_ptr_type(fn.ret) == (self.fallible[callee_name(v)] == "ptr"):
                            self.fallible[fn.name] = self.fallible[callee_name(v)]
                            changed = True
                            break
                        if is_e(v, "cond"):
                            # `return chain ? 0 : -1` where chain is bound to a fallible call
                            c = strip(negate_truth(v[1], True)[0])
                            for (k2, el2) in list(self.unchecked.items()):
                                if k2[0] != fn.name:
                                    continue
                                var, _ = self.binding(fn, el2)
                                if var is not None and eq(var, c):
                                    self.fallible[fn.name] = "ptr" if is_ptr_type(fn.ret) else "int"
                                    self.propagated.add(k2)
                                    changed = True
        # results that are returned to the caller are propagated, not dropped
        for (k, el) in list(self.unchecked.items()):
            fn = [f for f in self.fns if f.name == k[0]][0]
            var, _ = self.binding(fn, el)
            for r in fn.returns():
                v = strip(r.e[1])
                if (is_e(v, "call") and eq(v, el.e)) or (var is not None and eq(v, var)):
                    self.propagated.add(k)
        for k in self.propagated:
            self.unchecked.pop(k, None)
        return self.fallible
