"""Header-line handling of evhttp_parse_headers_ evaluated on abstract lines (C23: field names are tokens; no white space before the colon)."""
from .prog import *
from .prog import PStr
from .interp import normx, nkey, run_all

TCHAR = set(b"!#$%&'*+-.^_`|~0123456789ABCDEFGHIJKLMNOPQRSTUVWXYZabcdefghijklmnopqrstuvwxyz")


def reference(line):
    """RFC 9112 5 / RFC 9110 5.1: field-line = field-name ":" OWS field-value OWS, field-name = token.  -> (name, value) or None"""
    i = line.find(b":")
    if i <= 0:
        return None
    name = line[:i]
    if any(c not in TCHAR for c in name):
        return None
    return (name, line[i + 1:].strip(b" \t"))


def evaluate(P, lines, carried=None, final=True):
    """feed `lines` (bytes, without CRLF; the terminating empty line is added when `final`) to evhttp_parse_headers_; `carried` = header fields stored by
    earlier calls for the same message.  -> (status-name, ((name, value), ...)) or ('unknown', why)"""
    f = P.fn("evhttp_parse_headers_")
    g = P.fn("evhttp_add_header")
    req = ["var", f.params[0][0], "param"]
    names = {}
    for e in P.enums.values():
        its = dict(e["items"])
        if "ALL_DATA_READ" in its:
            names = {v: n for n, v in e["items"]}
    env = {"#typed": 1, req[1]: 1, f.params[1][0]: 77, "#lines": tuple(lines) + ((b"",) if final else ()), "#hdrs": tuple(carried or ()), "event_debug_logging_mask_": 0,
           nkey(["fld", req, "evhttp_request.input_headers", "->"]): 5, nkey(["fld", req, "evhttp_request.headers_size", "->"]): 0, nkey(["fld", req, "evhttp_request.evcon", "->"]): 0}

    def setvar(arg, val, e_):
        a = strip(arg)
        if is_e(a, "addr"):
            a = strip(a[1])
        if is_e(a, "var"):
            e_[a[1]] = val
            return True
        return False

    def sub(el, e_):
        n = callee_name(el.e)
        if n == "evhttp_header_is_valid_value" or (n and n.startswith("evhttp_") and ("is_valid" in n or "is_token" in n or n.endswith("_ok"))):
            return "inline"
        if n == "evhttp_add_header_internal":
            try:
                k, v = evalx(normx(el.e[2][1]), e_, P), evalx(normx(el.e[2][2]), e_, P)
            except EvalError:
                return "impure"
            if not isinstance(k, PStr) or not isinstance(v, PStr):
                return "impure"
            e_["#hdrs"] = e_["#hdrs"] + ((k.text(), v.text()),)
            return 0
        return None

    def hook(el, e_):
        n = callee_name(el.e)
        a = el.e[2]
        try:
            if n == "evbuffer_readln":
                ls = e_["#lines"]
                if not ls:
                    return 0
                e_["#lines"] = ls[1:]
                if len(a) > 1:
                    setvar(a[1], len(ls[0]), e_)
                return PStr(ls[0])
            if n == "strsep":
                tgt = strip(a[0])
                tgt = strip(tgt[1]) if is_e(tgt, "addr") else None
                if tgt is None or not is_e(tgt, "var"):
                    return "impure"
                p = e_.get(tgt[1])
                dl = evalx(normx(a[1]), e_, P)
                if not isinstance(p, PStr) or not isinstance(dl, PStr):
                    return "impure"
                t = p.text()
                idx = min([t.find(bytes([c])) for c in dl.text() if t.find(bytes([c])) >= 0] or [-1])
                if idx < 0:
                    e_[tgt[1]] = 0
                    return p
                e_[tgt[1]] = p + (idx + 1)
                return PStr(t[:idx])
            if n == "evutil_rtrim_lws_":
                p = evalx(normx(a[0]), e_, P)
                if isinstance(p, PStr):
                    setvar(a[0], PStr(p.text().rstrip(b" \t")), e_)
                return 0
            if n == "evhttp_add_header":
                env2 = {"#typed": 1, g.params[0][0]: 5, "#hdrs": e_["#hdrs"], "event_debug_logging_mask_": 0}
                for (pn, pt), x in list(zip(g.params, a))[1:]:
                    env2[pn] = evalx(normx(x), e_, P)
                alts = []
                for o2 in run_all(g, (g.entry, 0), env2, lambda x: False, P, sub, max_steps=400):
                    if o2.kind == "exit" and o2.why == "noreturn":
                        continue
                    if o2.kind != "ret":
                        e_["#err"] = "evhttp_add_header: %s %s" % (o2.kind, o2.why)
                        return "impure"
                    alts.append((evalx(normx(o2.at.e[1]), o2.env, P), {"#hdrs": o2.env["#hdrs"]}))
                return alts or "impure"
            if n == "evhttp_append_to_last_header":
                # the continuation is appended to the field stored last for this message; a NULL first argument (no list / no field to extend) fails
                try:
                    tgt = evalx(normx(a[0]), e_, P)
                except EvalError:
                    tgt = 1         # not a value the evaluation tracks (e.g. a pointer taken from the list): taken to designate a field
                if tgt == 0 or not e_["#hdrs"]:
                    return -1
                ln_ = evalx(normx(a[1]), e_, P).text().strip(b" \t")
                hs = list(e_["#hdrs"])
                hs[-1] = (hs[-1][0], hs[-1][1] + b" " + ln_)
                e_["#hdrs"] = tuple(hs)
                return 0
            if n == "event_mm_free_":
                return 0
            if n and (("is_token" in n) or ("is_valid" in n) or n.endswith("_ok")) and n in P.fns:
                return "inline"
        except EvalError as ex:
            e_["#err"] = str(ex)
            return "impure"
        return None
    res = set()
    for o in run_all(f, (f.entry, 0), env, lambda el: False, P, hook, max_steps=800):
        if o.kind == "exit" and o.why == "noreturn":
            continue
        if o.kind != "ret":
            return ("unknown", "%s %s %s" % (o.kind, o.why, o.env.get("#err", "")))
        try:
            rv = evalx(normx(o.at.e[1]), o.env, P)
        except EvalError as ex:
            return ("unknown", str(ex))
        if isinstance(rv, int) and rv >= (1 << 31):
            rv -= (1 << 32)          # the enum has a negative enumerator: its values are ints
        res.add((names.get(rv, str(rv)), o.env["#hdrs"]))
    if len(res) != 1:
        return ("unknown", "%d outcomes" % len(res))
    return list(res)[0]


LINES = [b"Host: x", b"Host:x", b"Host:   x  ", b"X-Empty:", b"a!#$%&'*+-.^_`|~9: v", b"Content-Length: 5",
         b"Host : x", b"Content-Length : 5", b"Host\t: x", b"Ho st: x", b": x", b"Host", b"Ho(st: x", b"Ho\"st: x", b"Ho\x7fst: x", b"Ho\x01st: x", b"H\xf6st: x", b"Host@x: y", b"Ho/st: x"]


FOLDED = [
    ([b"X-Fold: one", b" two"], [(b"X-Fold", b"one two")]),
    ([b"A: 1", b"X-Fold: one", b"\ttwo", b"  three", b"B: 2"], [(b"A", b"1"), (b"X-Fold", b"one two three"), (b"B", b"2")]),
]


def fold_cases(P, r, f):
    """obsolete line folding, and header sections that arrive in two reads (the parser is re-entered with the rest): same fields whatever the cut"""
    nb = 0
    fams = FOLDED + [([b"Host: x", b"Content-Length: 5", b"X: y"], [(b"Host", b"x"), (b"Content-Length", b"5"), (b"X", b"y")])]
    for lines, want in fams:
        for k in range(0, len(lines) + 1):
            if k == 0:
                got = evaluate(P, lines)
            else:
                g1 = evaluate(P, lines[:k], final=False)
                if g1[0] == "unknown":
                    got = g1
                elif g1[0] != "MORE_DATA_EXPECTED":
                    got = g1
                else:
                    got = evaluate(P, lines[k:], carried=g1[1])
            if got[0] == "unknown":
                r.brk("evhttp_parse_headers_ not evaluable on %r cut after line %d: %s" % (lines, k, got[1]))
                return
            ok = got == ("ALL_DATA_READ", tuple(want))
            r.inst((tuple(lines), k), {"lines": [x.decode("latin-1") for x in lines], "second_read_starts_at_line": k, "libevent": [got[0], [[a.decode("latin-1"), b.decode("latin-1")] for a, b in got[1]]]})
            if not ok and nb < 4:
                nb += 1
                r.bad("K6:evhttp_parse_headers_:%s" % ("segmentation-dependent" if k else "fold"), "%s:%d" % (f.file, f.line), f.name,
                      "header section %r %s gives %s %s; expected the fields %s (a continuation line extends the field before it, also when it arrives in a later read)" % (
                          lines, ("with the second read starting at line %d" % k) if k else "in one read", got[0], list(got[1]), want))


def rule_fieldname(P, rid):
    from .core import Rule
    r = Rule(rid, "K6", "received header lines: accepted exactly when the field name is a token directly followed by ':'; value trimmed of surrounding white space", floor=15)
    f = P.fn("evhttp_parse_headers_")
    nb = 0
    for ln in LINES:
        got = evaluate(P, [ln])
        if got[0] == "unknown":
            r.brk("evhttp_parse_headers_ not evaluable on %r: %s" % (ln, got[1]))
            return r
        ref = reference(ln)
        want = ("ALL_DATA_READ", (ref,)) if ref else ("DATA_CORRUPTED", None)
        ok = (got[0] == want[0]) and (ref is None or got[1] == want[1])
        r.inst(ln, {"line": ln.decode("latin-1"), "libevent": [got[0], [[a.decode("latin-1"), b.decode("latin-1")] for a, b in got[1]]], "rfc": [want[0], [x.decode("latin-1") for x in ref] if ref else None]})
        if not ok and nb < 8:
            nb += 1
            if ref is None:
                name = ln.split(b":")[0]
                kind = "whitespace-before-colon" if name.rstrip(b" \t") != name and name.strip(b" \t") else ("empty-name" if not name.strip() or b":" not in ln else "name-not-token")
                r.bad("K6:evhttp_parse_headers_:%s" % kind, "%s:%d" % (f.file, f.line), f.name,
                      "header line %r is accepted as %s; RFC 9112 5.1 / RFC 9110 5.1: the field name must be a token immediately followed by ':' — the message has to be rejected (a field the framing code does not recognise, e.g. \"Content-Length : 5\", changes where the message ends)" % (ln, list(got[1])))
            else:
                r.bad("K6:evhttp_parse_headers_:valid-line-misparsed", "%s:%d" % (f.file, f.line), f.name, "header line %r gives %s %s; RFC: %s" % (ln, got[0], list(got[1]), want[1]))
    fold_cases(P, r, f)
    seen, uniq = set(), []
    for f_ in r.findings:
        if f_.key not in seen:
            seen.add(f_.key)
            uniq.append(f_)
    r.findings = uniq
    return r
