"""Message-body framing decision of http.c (shared by C23 and C24).

evhttp_get_body / evhttp_get_body_length / evhttp_response_needs_body / the EVHTTP_RESPONSE arm of evhttp_read_header are evaluated from
their extracted CFGs on an abstract header domain (is Transfer-Encoding present and is it exactly / finally / not `chunked`, is
Content-Length present and what does its text look like, Connection: close, message kind, method class, status class).  The outcome
(no body / chunked / length n / until close / rejected) is compared with RFC 9112 section 6.3.
"""
from .prog import *
from .prog import PStr
from .interp import normx, nkey, run_all
from .facts import AnalysisBroken

REQUEST, RESPONSE = 0, 1


class Scenario(object):
    def __init__(self, kind, te, cl, conn_close, may_have_body=1, code=200, head=0, expect="NO"):
        self.kind = kind            # REQUEST / RESPONSE
        self.te = te                # None | "chunked" | "gzip, chunked" | "gzip" | "chunked, gzip"
        self.cl = cl                # None | ("digits", n) | ("plus", n) | ("empty",) | ("junk", n) | ("neg",)
        self.conn = conn_close      # None | "close" | "keep-alive"
        self.may = may_have_body
        self.code = code
        self.head = head
        self.expect = expect

    def key(self):
        return (self.kind, self.te, self.cl, self.conn, self.may, self.code, self.head)


def rfc_decision(s):
    """RFC 9112 section 6.3 (+ section 6.1 for Transfer-Encoding in requests)"""
    if s.kind == RESPONSE:
        if s.head or (100 <= s.code < 200) or s.code in (204, 304):
            return ("none",)
    else:
        if not s.may:
            return ("none",)    # libevent's documented restriction: methods declared without body are not given one
    if s.te is not None:
        last = s.te.split(",")[-1].strip().lower()
        if last == "chunked":
            return ("chunked",)
        if s.kind == REQUEST:
            return ("reject",)
        return ("close",)
    if s.cl is not None:
        if s.cl[0] == "digits":
            return ("length", s.cl[1])
        return ("reject",)
    if s.kind == REQUEST:
        return ("none",)
    return ("close",)


def evaluate(P, s):
    """outcome of libevent's code for scenario s: ('none',) ('chunked',) ('length', n) ('close',) ('reject',) or ('unknown', why)"""
    f = P.fn("evhttp_get_body")
    evcon = ["var", f.params[0][0], "param"]
    req = ["var", f.params[1][0], "param"]
    enumv = {}
    for e in P.enums.values():
        for n, v in e["items"]:
            enumv[n] = v
    kkind = nkey(["fld", req, "evhttp_request.kind", "->"])
    kchunk = nkey(["fld", req, "evhttp_request.chunked", "->"])
    knto = nkey(["fld", req, "evhttp_request.ntoread", "->"])
    kcode = nkey(["fld", req, "evhttp_request.response_code", "->"])
    ktype = nkey(["fld", req, "evhttp_request.type", "->"])
    if s.kind == RESPONSE:
        g = P.fn("evhttp_response_needs_body")
        rq = ["var", g.params[0][0], "param"]
        env = {rq[1]: 1, nkey(["fld", rq, "evhttp_request.response_code", "->"]): s.code, nkey(["fld", rq, "evhttp_request.type", "->"]): enumv["EVHTTP_REQ_HEAD"] if s.head else enumv["EVHTTP_REQ_GET"]}
        outs = run_all(g, (g.entry, 0), env, lambda el: False, P, lambda el, e_: None)
        vals = set()
        for o in outs:
            if o.kind != "ret":
                return ("unknown", "evhttp_response_needs_body: %s" % o.why)
            try:
                vals.add(evalx(normx(o.at.e[1]), o.env, P))
            except EvalError as ex:
                return ("unknown", str(ex))
        if vals == {0}:
            return ("none",)
        if vals != {1}:
            return ("unknown", "evhttp_response_needs_body not deterministic")
    CLTEXT = {"digits": None, "plus": "+5", "empty": "", "junk": "5x", "neg": "-5", "space": " 5"}
    env = {evcon[1]: 1, req[1]: 1, kkind: enumv["EVHTTP_REQUEST"] if s.kind == REQUEST else enumv["EVHTTP_RESPONSE"], kchunk: 0, knto: -7, kcode: s.code,
           ktype: enumv["EVHTTP_REQ_POST"], "event_debug_logging_mask_": 0, "#typed": 1,
           nkey(["fld", ["fld", req, "evhttp_request.evcon", "->"], "evhttp_connection.max_body_size", "->"]): (1 << 64) - 1}

    def hook(el, e_):
        n = callee_name(el.e)
        if n == "evhttp_method_may_have_body_":
            return s.may
        if n == "evhttp_find_header":
            name = strip(el.e[2][1])
            nm = name[1].lower() if is_e(name, "str") else None
            if nm == "transfer-encoding":
                return PStr(s.te) if s.te is not None else 0
            if nm == "content-length":
                if s.cl is None:
                    return 0
                txt = CLTEXT[s.cl[0]]
                if txt is None:
                    txt = str(s.cl[1])
                return PStr(txt)
            if nm == "connection":
                return PStr(s.conn) if s.conn is not None else 0
            return 0
        if n in ("evutil_strtoll", "strtoll"):
            try:
                p = evalx(normx(el.e[2][0]), e_, P)
            except EvalError:
                return "impure"
            if not isinstance(p, PStr):
                return "impure"
            t = p.text()
            i = 0
            while i < len(t) and t[i] in b" \t\n\v\f\r":
                i += 1
            sign = 1
            if i < len(t) and t[i] in b"+-":
                sign = -1 if t[i:i + 1] == b"-" else 1
                i += 1
            j = i
            while j < len(t) and 48 <= t[j] <= 57:
                j += 1
            val = sign * int(t[i:j]) if j > i else 0
            endp = strip(el.e[2][1])
            if is_e(endp, "addr") and is_e(strip(endp[1]), "var"):
                e_[strip(endp[1])[1]] = p + (j if j > i else 0)
            return val
        if n == "evhttp_final_coding_is_chunked" or (n and n.startswith("evhttp_") and n.endswith("_is_chunked")):
            return "inline"
        if n == "evhttp_have_expect":
            return enumv[s.expect]
        if n == "evhttp_get_body_length":
            # evaluate the callee on the same scenario
            g2 = P.fn("evhttp_get_body_length")
            r2 = ["var", g2.params[0][0], "param"]
            k2 = nkey(["fld", r2, "evhttp_request.ntoread", "->"])
            env2 = {r2[1]: 1, k2: e_.get(knto), "event_debug_logging_mask_": 0, "#typed": 1}
            alts = []
            for o2 in run_all(g2, (g2.entry, 0), env2, lambda x: False, P, hook, max_steps=600):
                if o2.kind == "exit" and o2.why == "noreturn":
                    continue
                if o2.kind != "ret":
                    return "impure"
                try:
                    rv = evalx(normx(o2.at.e[1]), o2.env, P)
                except EvalError:
                    return "impure"
                alts.append((rv, {knto: o2.env.get(k2)}))
            return alts or "impure"
        if n in ("evhttp_connection_done", "evhttp_connection_fail_", "evhttp_read_body", "evhttp_send_error", "evhttp_lingering_fail", "evhttp_send_continue"):
            info = (n, e_.get(kchunk), e_.get(knto))
            e_["#out"] = e_.get("#out", ()) + (info,)
            return 0
        if n in ("evbuffer_get_length", "bufferevent_get_input"):
            return 0
        return None
    outs = run_all(f, (f.entry, 0), env, lambda el: False, P, hook, max_steps=1200)
    res = set()
    for o in outs:
        if o.kind == "exit" and o.why == "noreturn":
            continue
        if o.kind == "unknown":
            return ("unknown", o.why)
        out = [x for x in o.env.get("#out", ()) if x[0] != "evhttp_send_continue"]
        if not out:
            return ("unknown", "no terminal action")
        n, ch, nto = out[0]
        if n == "evhttp_connection_done":
            res.add(("none",))
        elif n in ("evhttp_connection_fail_", "evhttp_send_error", "evhttp_lingering_fail"):
            res.add(("reject",))
        elif n == "evhttp_read_body":
            if ch:
                res.add(("chunked",))
            elif nto is not None and nto < 0:
                res.add(("close",))
            elif nto == 0:
                res.add(("none",))
            else:
                res.add(("length", nto))
    if len(res) != 1:
        return ("unknown", "outcomes %s" % sorted(res))
    return list(res)[0]


def scenarios(kind):
    out = []
    tes = [None, "chunked", "Chunked", "gzip, chunked", "gzip", "chunked, gzip", "identity"]
    cls = [None, ("digits", 5), ("digits", 0), ("plus", 5), ("empty",), ("junk", 5), ("neg",)]
    conns = [None, "close", "keep-alive"]
    if kind == REQUEST:
        for may in (1, 0):
            for te in tes:
                for cl in cls:
                    for c in conns:
                        out.append(Scenario(REQUEST, te, cl, c, may_have_body=may))
    else:
        for code, head in ((200, 0), (200, 1), (204, 0), (304, 0), (100, 0), (103, 0), (199, 0), (404, 0)):
            for te in tes:
                for cl in cls:
                    for c in conns:
                        out.append(Scenario(RESPONSE, te, cl, c, code=code, head=head))
    return out
