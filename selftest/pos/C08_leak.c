/* positive example for K1: must be reported on every run (a rule that matches nothing passes vacuously) */
#include "event2/event-config.h"
#include "evconfig-private.h"
#include "event2/thread.h"
#include "evthread-internal.h"

struct selftest_obj { void *lock; int n; };

int selftest_leaky(struct selftest_obj *o, int fail);
int selftest_fine(struct selftest_obj *o, int fail);
int selftest_double_unlock(struct selftest_obj *o);

int
selftest_leaky(struct selftest_obj *o, int fail)
{
	EVLOCK_LOCK(o->lock, 0);
	if (fail)
		return -1;	/* lock still held */
	o->n++;
	EVLOCK_UNLOCK(o->lock, 0);
	return 0;
}

int
selftest_fine(struct selftest_obj *o, int fail)
{
	int r = 0;
	EVLOCK_LOCK(o->lock, 0);
	if (fail) {
		r = -1;
		goto done;
	}
	o->n++;
done:
	EVLOCK_UNLOCK(o->lock, 0);
	return r;
}

int
selftest_double_unlock(struct selftest_obj *o)
{
	EVLOCK_LOCK(o->lock, 0);
	o->n++;
	EVLOCK_UNLOCK(o->lock, 0);
	EVLOCK_UNLOCK(o->lock, 0);
	return 0;
}
