/* replay for K6:be_filter_eventcb:eof-with-input-pending (C17): a pass-through filter with a read high watermark of 10 stacked on one end of a
 * bufferevent pair; the other end writes 100 bytes and flushes with BEV_FINISHED.  The application looks at its input when the event callback
 * tells it the stream ended.  be_filter_eventcb forwarded BEV_EVENT_EOF at once, with 90 bytes still in the underlying input buffer (struct
 * bufferevent_filtered has a got_eof flag for exactly this, which nothing ever set).
 * build: cc -g -I/repo/include -I<build>/include C17_filter_eof_before_data.c <build>/lib/libevent.a -o t && ./t
 * exit 0 = every byte was in the application's input buffer when BEV_EVENT_EOF was reported */
#include <event2/event.h>
#include <event2/bufferevent.h>
#include <event2/buffer.h>
#include <stdio.h>
#include <string.h>
static size_t at_eof; static int eofs;
static enum bufferevent_filter_result pass(struct evbuffer *src, struct evbuffer *dst, ev_ssize_t lim, enum bufferevent_flush_mode m, void *ctx)
{
	(void)m; (void)ctx;
	if (!evbuffer_get_length(src)) return BEV_NEED_MORE;
	evbuffer_remove_buffer(src, dst, lim < 0 ? evbuffer_get_length(src) : (size_t)lim);
	return BEV_OK;
}
static void readcb(struct bufferevent *b, void *arg) { (void)arg; (void)b; /* data is looked at on EOF */ }
static void eventcb(struct bufferevent *b, short what, void *arg)
{
	(void)arg;
	if (what & BEV_EVENT_EOF) { eofs++; at_eof = evbuffer_get_length(bufferevent_get_input(b)); event_base_loopbreak(bufferevent_get_base(b)); }
}
int main(void)
{
	char data[100];
	struct event_base *base = event_base_new();
	struct bufferevent *p[2], *f;
	memset(data, 'x', sizeof data);
	bufferevent_pair_new(base, 0, p);
	f = bufferevent_filter_new(p[1], pass, pass, 0, NULL, NULL);
	bufferevent_setcb(f, readcb, NULL, eventcb, NULL);
	bufferevent_setwatermark(f, EV_READ, 0, 10);
	bufferevent_enable(f, EV_READ);
	bufferevent_write(p[0], data, sizeof data);
	bufferevent_flush(p[0], EV_WRITE, BEV_FINISHED);
	event_base_loop(base, 0);
	printf("EOF events %d; bytes in the application's input at EOF: %zu of 100 (left in the underlying input: %zu)\n", eofs, at_eof,
	    evbuffer_get_length(bufferevent_get_input(p[1])));
	return (eofs == 1 && at_eof == 100) ? 0 : 1;
}
