/* replay for K4:evhttp_header_is_valid_value:unbounded-line-break-run
 * The header value validator skips ANY run of CR/LF with strspn() and then only requires SP/HT: a value such as
 * "a\r\n\r\n injected" is accepted, and the blank line it contains ends the header block on the wire. */
#include <event2/http.h>
#include <event2/keyvalq_struct.h>
#include <stdio.h>
#include <sys/queue.h>
int main(void)
{
	struct evkeyvalq h;
	int r;
	TAILQ_INIT(&h);
	r = evhttp_add_header(&h, "X-K", "a\r\n\r\n GET /smuggled HTTP/1.1");
	printf("evhttp_add_header with an embedded blank line returned %d (expected -1)\n", r);
	return r == 0;
}
