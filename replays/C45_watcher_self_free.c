/* replay for K9:event_base_loop:watchers:advance-after-callback
 * A prepare watcher that frees itself from its own callback (evwatch_free is documented as callable at any time; nothing
 * forbids it): the TAILQ_FOREACH in event_base_loop reads watcher->next after the callback returned -> heap-use-after-free. */
#include <event2/event.h>
#include <event2/watch.h>
#include <stdio.h>
static int calls;
static void prep(struct evwatch *w, const struct evwatch_prepare_cb_info *info, void *arg)
{ (void)info; (void)arg; ++calls; evwatch_free(w); }
int main(void)
{
	struct event_base *base = event_base_new();
	struct timeval tv = {0, 1000};
	evwatch_prepare_new(base, prep, NULL);
	event_base_loopexit(base, &tv);
	event_base_dispatch(base);
	printf("prepare watcher ran %d time(s) and freed itself\n", calls);
	event_base_free(base);
	return 0;
}
