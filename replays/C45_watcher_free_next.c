/* second replay for C45: a prepare watcher frees the NEXT watcher; then that watcher must not run (freed) and a third one must still run. */
#include <event2/event.h>
#include <event2/watch.h>
#include <stdio.h>
static struct evwatch *w2;
static int ran1, ran2, ran3;
static void p1(struct evwatch *w, const struct evwatch_prepare_cb_info *i, void *a) { (void)w;(void)i;(void)a; ++ran1; if (w2) { evwatch_free(w2); w2 = NULL; } }
static void p2(struct evwatch *w, const struct evwatch_prepare_cb_info *i, void *a) { (void)w;(void)i;(void)a; ++ran2; }
static void p3(struct evwatch *w, const struct evwatch_prepare_cb_info *i, void *a) { (void)w;(void)i;(void)a; ++ran3; }
int main(void)
{
	struct event_base *base = event_base_new();
	struct timeval tv = {0, 1000};
	evwatch_prepare_new(base, p1, NULL);
	w2 = evwatch_prepare_new(base, p2, NULL);
	evwatch_prepare_new(base, p3, NULL);
	event_base_loopexit(base, &tv);
	event_base_loop(base, EVLOOP_ONCE);
	printf("ran1=%d ran2=%d ran3=%d\n", ran1, ran2, ran3);
	event_base_free(base);
	return !(ran1 >= 1 && ran2 == 0 && ran3 >= 1);
}
