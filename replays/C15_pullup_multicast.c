/* replay for K4:evbuffer_pullup:write-into-immutable-chain
 * Two buffers reference the same source through evbuffer_add_buffer_reference (multicast chains share the source's
 * memory and inherit its buffer_len).  Each appends its own bytes and pulls up: the "enough space in the first chain"
 * branch of evbuffer_pullup writes into the SHARED memory without testing EVBUFFER_IMMUTABLE, so the second pullup
 * overwrites what the first one placed there.  Expected: d1 reads AAAABBBB; on the unchanged tree it reads AAAACCCC. */
#include <event2/buffer.h>
#include <stdio.h>
#include <string.h>
int main(void)
{
	struct evbuffer *src = evbuffer_new(), *d1 = evbuffer_new(), *d2 = evbuffer_new();
	unsigned char *p1, *p2;
	char got1[9] = {0}, got2[9] = {0};
	evbuffer_add(src, "AAAA", 4);
	evbuffer_add_buffer_reference(d1, src);
	evbuffer_add_buffer_reference(d2, src);
	evbuffer_add(d1, "BBBB", 4);
	evbuffer_add(d2, "CCCC", 4);
	p1 = evbuffer_pullup(d1, 8);
	p2 = evbuffer_pullup(d2, 8);
	if (!p1 || !p2) { printf("pullup refused\n"); return 2; }
	evbuffer_copyout(d1, got1, 8);
	evbuffer_copyout(d2, got2, 8);
	printf("d1=%s d2=%s src_len=%zu\n", got1, got2, evbuffer_get_length(src));
	return !(strcmp(got1, "AAAABBBB") == 0 && strcmp(got2, "AAAACCCC") == 0);
}
