/* replay for K10:mbedtls_set_ssl_noops:slot-decrement_buckets-charges-nothing
 * A rate-limited mbed TLS bufferevent is never charged for what it transfers: le_mbedtls_ops.decrement_buckets is the no-op
 * mbedtls_set_ssl_noops, so its token bucket stays full and the configured bandwidth is not enforced.
 * Two TLS bufferevents over a socketpair; the receiver is limited to 2000 bytes/s (burst 2000); the sender pushes 200 KB;
 * after ~1.2 s the receiver may have got at most burst + 2*rate = 6000 bytes.
 * cc ... C22_mbedtls_not_charged.c libevent_mbedtls.a libevent_core.a -lmbedtls -lmbedx509 -lmbedcrypto */
#include <event2/event.h>
#include <event2/bufferevent.h>
#include <event2/bufferevent_ssl.h>
#include <event2/buffer.h>
#include <event2/util.h>
#include <mbedtls/ssl.h>
#include <mbedtls/entropy.h>
#include <mbedtls/ctr_drbg.h>
#include <mbedtls/x509_crt.h>
#include <mbedtls/pk.h>
#include <stdio.h>
#include <stdlib.h>
#include <string.h>
#include <time.h>
#include <sys/socket.h>
#include "C22_key.h"
static mbedtls_entropy_context entropy;
static mbedtls_ctr_drbg_context drbg;
static size_t received;
static void rd(struct bufferevent *bev, void *arg)
{ struct evbuffer *in = bufferevent_get_input(bev); (void)arg; received += evbuffer_get_length(in); evbuffer_drain(in, evbuffer_get_length(in)); }
static void ev(struct bufferevent *bev, short what, void *arg) { (void)bev; (void)arg; if (what & BEV_EVENT_ERROR) printf("bev error %#x\n", what); }
int main(void)
{
	struct event_base *base = event_base_new();
	mbedtls_pk_context pk; mbedtls_x509_crt crt; mbedtls_x509write_cert wc; mbedtls_mpi serial;
	mbedtls_ssl_config sconf, cconf;
	unsigned char certbuf[8192];
	char nb[32], na[32]; struct tm tm; time_t now = time(NULL);
	int sv[2];
	struct bufferevent *srv, *cli;
	mbedtls_dyncontext *sssl, *cssl;
	struct ev_token_bucket_cfg *cfg;
	static char data[200000];
	struct timeval tv = {1, 200000};
	mbedtls_entropy_init(&entropy); mbedtls_ctr_drbg_init(&drbg);
	mbedtls_ctr_drbg_seed(&drbg, mbedtls_entropy_func, &entropy, (const unsigned char *)"replay", 6);
	mbedtls_pk_init(&pk);
	if (mbedtls_pk_parse_key(&pk, (const unsigned char *)KEY, sizeof(KEY), NULL, 0)) { printf("key parse failed\n"); return 2; }
	gmtime_r(&now, &tm); strftime(nb, sizeof(nb), "%Y%m%d%H%M%S", &tm); now += 3600; gmtime_r(&now, &tm); strftime(na, sizeof(na), "%Y%m%d%H%M%S", &tm);
	mbedtls_x509write_crt_init(&wc); mbedtls_x509write_crt_set_version(&wc, 2);
	mbedtls_mpi_init(&serial); mbedtls_mpi_read_string(&serial, 10, "12345"); mbedtls_x509write_crt_set_serial(&wc, &serial);
	mbedtls_x509write_crt_set_subject_name(&wc, "commonName=example.com"); mbedtls_x509write_crt_set_issuer_name(&wc, "commonName=example.com");
	mbedtls_x509write_crt_set_md_alg(&wc, MBEDTLS_MD_SHA256); mbedtls_x509write_crt_set_validity(&wc, nb, na);
	mbedtls_x509write_crt_set_issuer_key(&wc, &pk); mbedtls_x509write_crt_set_subject_key(&wc, &pk);
	if (mbedtls_x509write_crt_pem(&wc, certbuf, sizeof(certbuf), mbedtls_ctr_drbg_random, &drbg)) { printf("cert write failed\n"); return 2; }
	mbedtls_x509_crt_init(&crt);
	if (mbedtls_x509_crt_parse(&crt, certbuf, strlen((char *)certbuf) + 1)) { printf("cert parse failed\n"); return 2; }
	mbedtls_ssl_config_init(&sconf); mbedtls_ssl_config_init(&cconf);
	mbedtls_ssl_config_defaults(&sconf, MBEDTLS_SSL_IS_SERVER, MBEDTLS_SSL_TRANSPORT_STREAM, MBEDTLS_SSL_PRESET_DEFAULT);
	mbedtls_ssl_config_defaults(&cconf, MBEDTLS_SSL_IS_CLIENT, MBEDTLS_SSL_TRANSPORT_STREAM, MBEDTLS_SSL_PRESET_DEFAULT);
	mbedtls_ssl_conf_rng(&sconf, mbedtls_ctr_drbg_random, &drbg); mbedtls_ssl_conf_rng(&cconf, mbedtls_ctr_drbg_random, &drbg);
	mbedtls_ssl_conf_own_cert(&sconf, &crt, &pk);
	mbedtls_ssl_conf_authmode(&cconf, MBEDTLS_SSL_VERIFY_NONE);
	socketpair(AF_UNIX, SOCK_STREAM, 0, sv);
	evutil_make_socket_nonblocking(sv[0]); evutil_make_socket_nonblocking(sv[1]);
	sssl = bufferevent_mbedtls_dyncontext_new(&sconf); cssl = bufferevent_mbedtls_dyncontext_new(&cconf);
	srv = bufferevent_mbedtls_socket_new(base, sv[0], sssl, BUFFEREVENT_SSL_ACCEPTING, BEV_OPT_CLOSE_ON_FREE);
	cli = bufferevent_mbedtls_socket_new(base, sv[1], cssl, BUFFEREVENT_SSL_CONNECTING, BEV_OPT_CLOSE_ON_FREE);
	if (!srv || !cli) { printf("bufferevent_mbedtls_socket_new failed\n"); return 2; }
	cfg = ev_token_bucket_cfg_new(2000, 2000, EV_RATE_LIMIT_MAX, EV_RATE_LIMIT_MAX, NULL);
	bufferevent_set_rate_limit(cli, cfg);
	bufferevent_setcb(cli, rd, NULL, ev, NULL); bufferevent_setcb(srv, NULL, NULL, ev, NULL);
	bufferevent_enable(cli, EV_READ | EV_WRITE); bufferevent_enable(srv, EV_READ | EV_WRITE);
	memset(data, 'm', sizeof(data));
	bufferevent_write(srv, data, sizeof(data));
	event_base_loopexit(base, &tv);
	event_base_dispatch(base);
	printf("receiver limited to 2000 B/s (burst 2000) got %zu bytes of application data in 1.2 s; read budget left: %ld\n",
	    received, (long)bufferevent_get_read_limit(cli));
	return received > 6000;
}
