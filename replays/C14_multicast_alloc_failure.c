/* replay for K5:APPEND_CHAIN_MULTICAST:alloc-failure-swallowed (C13/C14)
 * evbuffer_add_buffer_reference(): when the allocation of a multicast chain fails half way, the helper just returns;
 * the caller still accounts the whole source length and reports success.
 * Expected (property): return -1 and out unchanged, or return 0 with all bytes. Unchanged tree: returns 0 with only part of
 * the bytes and a callback report (n_added) larger than the real growth. */
#include <event2/buffer.h>
#include <event2/event.h>
#include <stdio.h>
#include <stdlib.h>
static int fail_at = 0, count = 0;
static void *my_malloc(size_t n) { if (fail_at && ++count == fail_at) return NULL; return malloc(n); }
static void *my_realloc(void *p, size_t n) { return realloc(p, n); }
static void my_free(void *p) { free(p); }
static size_t reported_added, reported_orig;
static void cb(struct evbuffer *b, const struct evbuffer_cb_info *info, void *arg)
{ (void)b; (void)arg; reported_added += info->n_added; reported_orig = info->orig_size; }
int main(void)
{
	struct evbuffer *in, *out;
	char big[5000];
	int r;
	size_t before, after;
	event_set_mem_functions(my_malloc, my_realloc, my_free);
	in = evbuffer_new(); out = evbuffer_new();
	evbuffer_add(in, "first-chain", 11);
	/* force a second chain in `in` */
	{ unsigned i; for (i = 0; i < sizeof(big); ++i) big[i] = 'x'; }
	evbuffer_add(in, big, sizeof(big));
	evbuffer_add_cb(out, cb, NULL);
	before = evbuffer_get_length(out);
	count = 0; fail_at = 2;		/* second allocation inside the call fails */
	r = evbuffer_add_buffer_reference(out, in);
	fail_at = 0;
	after = evbuffer_get_length(out);
	printf("ret=%d in=%zu out grew by %zu, callbacks reported n_added=%zu orig_size=%zu\n",
	    r, evbuffer_get_length(in), after - before, reported_added, reported_orig);
	if (r == 0 && after - before != evbuffer_get_length(in)) { printf("VIOLATION: success reported, bytes missing\n"); return 1; }
	if (r != 0 && after != before) { printf("VIOLATION: failure reported, buffer changed\n"); return 1; }
	return 0;
}
