/* replay for K3:evhttp_make_request:failure-keeps-request (C27)
 * include/event2/http.h: "The connection gets ownership of the request.  On failure, the request object is no longer valid as it
 * has been freed."  When evhttp_connection_connect_() fails synchronously (here: the configured local address cannot be bound),
 * evhttp_make_request() unlinked the request and returned -1 without releasing it: the request leaked (its callback never runs,
 * nobody owns it).  The two other failing returns of the same function do release it.
 * build: cc -g -I/repo/include -I<build>/include C27_make_request_bind_failure.c <build>/lib/libevent.a -o t && ./t
 * exit 0 = a failing evhttp_make_request leaves no allocation behind; 1 = the request is still allocated. */
#include <event2/event.h>
#include <event2/http.h>
#include <stdio.h>
#include <stdlib.h>
static long live;
static void *m_malloc(size_t n) { void *p = malloc(n); if (p) live++; return p; }
static void *m_realloc(void *p, size_t n) { if (!p) return m_malloc(n); if (!n) { free(p); live--; return NULL; } return realloc(p, n); }
static void m_free(void *p) { if (p) { live--; free(p); } }
static int called;
static void done(struct evhttp_request *req, void *arg) { (void)req; (void)arg; called++; }
int main(void)
{
	struct event_base *base;
	struct evhttp_connection *evcon;
	struct evhttp_request *req;
	long before, after;
	int r;
	event_set_mem_functions(m_malloc, m_realloc, m_free);
	base = event_base_new();
	evcon = evhttp_connection_base_new(base, NULL, "127.0.0.1", 9);
	evhttp_connection_set_local_address(evcon, "192.0.2.77");   /* TEST-NET-1: not an address of this host, bind() fails */
	before = live;
	req = evhttp_request_new(done, NULL);
	r = evhttp_make_request(evcon, req, EVHTTP_REQ_GET, "/");
	after = live;
	printf("evhttp_make_request returned %d; allocations before request_new: %ld, after the failed call: %ld; callback ran %d times\n", r, before, after, called);
	if (r != -1) { printf("(bind unexpectedly succeeded: replay not applicable on this host)\n"); return 0; }
	if (after != before) { printf("LEAK: the request handed to a failing evhttp_make_request is still allocated\n"); return 1; }
	printf("ok: the request was released\n");
	evhttp_connection_free(evcon);
	event_base_free(base);
	return 0;
}
