/* replay for K6:evdns_getaddrinfo_gotresolve:cache-ttl (C38): a PF_UNSPEC lookup whose A answer has TTL 300 and whose AAAA answer has TTL 1.  The A answer
 * arrives first and waits; when the AAAA answer arrives the merged list was cached with the TTL of the answer that had been waiting (300), so a second
 * lookup 2.5 s later was served from the cache - including the AAAA address whose TTL ran out 1.5 s earlier - and sent no query.
 * build: cc -g -I/repo/include -I<build>/include C38_cache_ttl_of_merged_answer.c <build>/lib/libevent.a -o t && ./t ; exit 0 = the second lookup asks the server again */
#include <stdio.h>
#include <stdlib.h>
#include <string.h>
#include <unistd.h>
#include <sys/socket.h>
#include <netinet/in.h>
#include <event2/event.h>
#include <event2/dns.h>
#include <event2/dns_struct.h>
#include <event2/util.h>
static struct event_base *base;
static struct evdns_base *dns;
static int queries, round_, answered;
struct delayed { struct event *ev; struct evdns_server_request *req; };
static void delayed_respond(evutil_socket_t fd, short what, void *arg)
{
	struct delayed *d = arg; (void)fd; (void)what;
	evdns_server_request_respond(d->req, 0); event_free(d->ev); free(d);
}
static void server_cb(struct evdns_server_request *req, void *arg)
{
	static const unsigned char a4[4] = { 10, 0, 0, 1 };
	unsigned char a6[16];
	const char *name = req->questions[0]->name;
	(void)arg;
	evutil_inet_pton(AF_INET6, "2001:db8::1", a6);
	++queries;
	if (req->questions[0]->type == EVDNS_TYPE_A) {
		evdns_server_request_add_a_reply(req, name, 1, a4, 300);
		evdns_server_request_respond(req, 0);                 /* the long-lived answer arrives first */
	} else {
		struct timeval tv = { 0, 100 * 1000 };
		struct delayed *d = calloc(1, sizeof(*d));
		evdns_server_request_add_aaaa_reply(req, name, 1, a6, 1);   /* TTL 1 s */
		d->req = req; d->ev = evtimer_new(base, delayed_respond, d); evtimer_add(d->ev, &tv);
	}
}
static void gai_cb(int err, struct evutil_addrinfo *res, void *arg)
{
	int n = 0; struct evutil_addrinfo *ai; (void)arg;
	for (ai = res; ai; ai = ai->ai_next) ++n;
	printf("lookup %d: err=%d, %d address(es), queries seen by the server so far: %d\n", round_, err, n, queries);
	if (res) evutil_freeaddrinfo(res);
	++answered;
	event_base_loopbreak(base);
}
int main(void)
{
	struct sockaddr_in sin; ev_socklen_t slen = sizeof(sin); evutil_socket_t sock;
	struct evutil_addrinfo hints; int q1;
	struct timeval wait = { 2, 500 * 1000 };
	alarm(30);
	base = event_base_new();
	sock = socket(AF_INET, SOCK_DGRAM, 0); evutil_make_socket_nonblocking(sock);
	memset(&sin, 0, sizeof(sin)); sin.sin_family = AF_INET; sin.sin_addr.s_addr = htonl(0x7f000001);
	bind(sock, (struct sockaddr *)&sin, sizeof(sin)); getsockname(sock, (struct sockaddr *)&sin, &slen);
	evdns_add_server_port_with_base(base, sock, 0, server_cb, NULL);
	dns = evdns_base_new(base, 0);
	evdns_base_nameserver_sockaddr_add(dns, (struct sockaddr *)&sin, sizeof(sin), 0);
	memset(&hints, 0, sizeof(hints)); hints.ai_family = PF_UNSPEC; hints.ai_socktype = SOCK_STREAM; hints.ai_protocol = IPPROTO_TCP;
	round_ = 1; evdns_getaddrinfo(dns, "both.test", "80", &hints, gai_cb, NULL); event_base_dispatch(base);
	q1 = queries;
	event_base_loopexit(base, &wait); event_base_dispatch(base);            /* 2.5 s: the AAAA answer's TTL (1 s) is long over */
	round_ = 2; evdns_getaddrinfo(dns, "both.test", "80", &hints, gai_cb, NULL);
	if (answered < 2) event_base_dispatch(base);
	printf("queries for lookup 1: %d, for lookup 2: %d (0 = served from the cache after the AAAA answer expired)\n", q1, queries - q1);
	return (queries - q1) > 0 ? 0 : 1;
}
