/* replay for K6:evhttp_uri_join:unix (C28): a URI with a unix socket and a relative path.  evhttp_uri_join refuses a relative path behind a host
 * (it cannot be written) but wrote it behind a unix-socket authority: "//unix:/run/control.sock:p" does not parse.
 * build: cc -g -I/repo/include -I<build>/include C28_unix_join_relative_path.c <build>/lib/libevent.a -o t && ./t ; exit 0 = refused or parses back */
#include <event2/http.h>
#include <stdio.h>
int main(void)
{
	char buf[128];
	struct evhttp_uri *u = evhttp_uri_new(), *v;
	evhttp_uri_set_flags(u, EVHTTP_URI_UNIX_SOCKET);
	evhttp_uri_set_unixsocket(u, "/run/control.sock");
	evhttp_uri_set_path(u, "p");
	if (!evhttp_uri_join(u, buf, sizeof buf)) { printf("join refused\n"); return 0; }
	v = evhttp_uri_parse_with_flags(buf, EVHTTP_URI_UNIX_SOCKET);
	printf("joined %s -> %s\n", buf, v ? "parses" : "does NOT parse");
	return v ? 0 : 1;
}
