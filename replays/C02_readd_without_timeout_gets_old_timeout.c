/* replay (C02): a persistent I/O event is added with a timeout, deleted, and added again with event_add(ev, NULL) - no timeout.  When it then fires for I/O,
 * event_persist_closure re-arms "its" timeout from ev_io_timeout, which event_del left behind: event_pending reports EV_TIMEOUT for an event that was added without one,
 * and it later fires with EV_TIMEOUT.
 * build: cc -g -I/repo/include -I<build>/include C02_readd_without_timeout_gets_old_timeout.c <build>/lib/libevent.a -o t && ./t ; exit 0 = no timeout appears */
#include <event2/event.h>
#include <stdio.h>
#include <unistd.h>
static int fired_io, fired_to;
static void cb(evutil_socket_t fd, short what, void *arg)
{
	char c; (void)arg;
	if (what & EV_READ) { fired_io++; if (read(fd, &c, 1) < 0) {} }
	if (what & EV_TIMEOUT) fired_to++;
}
int main(void)
{
	int p[2]; struct timeval tv = {0, 200000}, pend = {0, 0}, lx = {0, 600000};
	struct event_base *base = event_base_new();
	struct event *ev;
	if (pipe(p)) return 2;
	ev = event_new(base, p[0], EV_READ | EV_PERSIST, cb, NULL);
	event_add(ev, &tv);          /* with a timeout */
	event_del(ev);
	event_add(ev, NULL);         /* again, without one */
	printf("after event_add(ev, NULL): EV_TIMEOUT pending = %d\n", !!event_pending(ev, EV_TIMEOUT, NULL));
	if (write(p[1], "x", 1) != 1) return 2;
	event_base_loop(base, EVLOOP_ONCE);
	printf("after one I/O callback:    EV_TIMEOUT pending = %d\n", !!event_pending(ev, EV_TIMEOUT, &pend));
	event_base_loopexit(base, &lx);
	event_base_dispatch(base);
	printf("callbacks: read %d, timeout %d\n", fired_io, fired_to);
	return (fired_to == 0) ? 0 : 1;
}
