/* replay for K4:evutil_inet_ntop:capacity-guard-not-strict (IPv6 branches)
 * With len == strlen(text) the IPv6 branch tests `strlen(buf) > len`, so it "succeeds" and returns a truncated string
 * (the IPv4 branch correctly tests >=).  Expected: NULL when the buffer cannot hold the text plus NUL. */
#include <event2/util.h>
#include <stdio.h>
#include <string.h>
#include <netinet/in.h>
int main(void)
{
	struct in6_addr a6;
	char full[64], small[64];
	const char *r;
	int bad = 0;
	evutil_inet_pton(AF_INET6, "2001:db8::1", &a6);
	evutil_inet_ntop(AF_INET6, &a6, full, sizeof(full));
	memset(small, 'X', sizeof(small));
	r = evutil_inet_ntop(AF_INET6, &a6, small, strlen(full));	/* one byte too small */
	printf("full='%s' (%zu chars); with len=%zu -> %s%s\n", full, strlen(full), strlen(full), r ? "returned " : "NULL", r ? r : "");
	if (r && strcmp(r, full) != 0) bad = 1;
	evutil_inet_pton(AF_INET6, "::ffff:1.2.3.4", &a6);
	evutil_inet_ntop(AF_INET6, &a6, full, sizeof(full));
	r = evutil_inet_ntop(AF_INET6, &a6, small, strlen(full));
	printf("full='%s'; with len=%zu -> %s%s\n", full, strlen(full), r ? "returned " : "NULL", r ? r : "");
	if (r && strcmp(r, full) != 0) bad = 1;
	return bad;
}
