/* replay for K6:dnsname_to_labels:malformed-name-encoded (C36)
 * A name with an empty label that is not the final one ("a..b", ".a") has no wire form.  dnsname_to_labels encoded the empty label as a
 * zero length byte, which terminates the name: the query on the wire then asks for "a", and its QTYPE/QCLASS are read from the bytes of the
 * next label.  C36: "A name that cannot be encoded as valid labels makes the request fail instead of being transmitted malformed".
 * build: cc -g -I/repo/include -I<build>/include C36_empty_label_query.c <build>/lib/libevent.a -o t && ./t
 * exit 0 = no malformed query was sent (the request failed); 1 = a malformed query reached the wire. */
#include <event2/event.h>
#include <event2/dns.h>
#include <stdio.h>
#include <string.h>
#include <unistd.h>
#include <arpa/inet.h>
static struct event_base *base;
static int cb_calls, cb_result = -99;
static void cb(int result, char type, int count, int ttl, void *addrs, void *arg)
{ (void)type; (void)count; (void)ttl; (void)addrs; (void)arg; cb_calls++; cb_result = result; }
static void stop(evutil_socket_t fd, short w, void *a) { (void)fd; (void)w; (void)a; event_base_loopbreak(base); }
static int one(const char *name)
{
	struct sockaddr_in sin; socklen_t sl = sizeof(sin);
	struct evdns_base *dns; struct evdns_request *rq;
	struct timeval tv = {0, 300000};
	unsigned char pkt[600]; char ns[64];
	int s = socket(AF_INET, SOCK_DGRAM, 0), n, bad = 0;
	memset(&sin, 0, sizeof(sin)); sin.sin_family = AF_INET; sin.sin_addr.s_addr = htonl(INADDR_LOOPBACK);
	bind(s, (struct sockaddr *)&sin, sizeof(sin)); getsockname(s, (struct sockaddr *)&sin, &sl);
	evutil_make_socket_nonblocking(s);
	dns = evdns_base_new(base, 0);
	snprintf(ns, sizeof(ns), "127.0.0.1:%d", ntohs(sin.sin_port));
	evdns_base_nameserver_ip_add(dns, ns);
	evdns_base_set_option(dns, "randomize-case:", "0");
	cb_calls = 0; cb_result = -99;
	rq = evdns_base_resolve_ipv4(dns, name, DNS_QUERY_NO_SEARCH, cb, NULL);
	event_base_once(base, -1, EV_TIMEOUT, stop, NULL, &tv); event_base_dispatch(base);
	n = (int)recv(s, pkt, sizeof(pkt), 0);
	if (n > 0) {
		/* decode the question and compare with what was asked */
		char got[300]; int p = 12, o = 0;
		while (p < n && pkt[p]) { int l = pkt[p++]; if (o) got[o++] = '.'; memcpy(got + o, pkt + p, l); o += l; p += l; }
		got[o] = 0; p++;
		{ char want[300]; size_t wl; snprintf(want, sizeof(want), "%s", name); wl = strlen(want); if (wl && want[wl - 1] == '.') want[wl - 1] = 0;   /* a trailing dot is not part of the wire name */
		  if (!strcmp(got, want) && n - p == 4) { printf("%-8s -> query sent: %d bytes, question name \"%s\", well-formed\n", name, n, got); evdns_base_free(dns, 0); close(s); return 0; } }
		printf("%-8s -> query sent: %d bytes, question name \"%s\", %d bytes after the name (a question has 4)%s\n", name, n, got, n - p,
		    (strcmp(got, name) || n - p != 4) ? "  MALFORMED / WRONG NAME" : "");
		if (strcmp(got, name) || n - p != 4) bad = 1;
	} else {
		printf("%-8s -> nothing sent; request %s (callback calls %d, result %d)\n", name, rq ? "accepted" : "refused", cb_calls, cb_result);
	}
	evdns_base_free(dns, 0); close(s);
	return bad;
}
int main(void)
{
	int bad = 0;
	base = event_base_new();
	bad |= one("a.b");
	bad |= one("a..b");
	bad |= one(".a");
	bad |= one("a.b.");
	return bad;
}
