/* replay for K4:bufferevent_get_rlim_max_:accumulator-overwritten
 * With a per-bufferevent rate limit configured, bufferevent_get_rlim_max_ replaces (instead of clamping) the per-operation maximum
 * by the bucket level: a bufferevent with max_single_write = 1000 and a large burst writes far more than 1000 bytes in one operation. */
#include <event2/event.h>
#include <event2/bufferevent.h>
#include <event2/buffer.h>
#include <stdio.h>
#include <string.h>
#include <unistd.h>
#include <fcntl.h>
#include <sys/socket.h>
int main(int argc, char **argv)
{
	struct event_base *base = event_base_new();
	int sv[2], n;
	struct bufferevent *bev;
	struct ev_token_bucket_cfg *cfg;
	static char data[60000], sink[70000];
	int with_limit = !(argc > 1 && !strcmp(argv[1], "nolimit"));
	socketpair(AF_UNIX, SOCK_STREAM, 0, sv);
	evutil_make_socket_nonblocking(sv[0]); evutil_make_socket_nonblocking(sv[1]);
	bev = bufferevent_socket_new(base, sv[0], 0);
	bufferevent_set_max_single_write(bev, 1000);
	if (with_limit) {
		cfg = ev_token_bucket_cfg_new(50000, 50000, 50000, 50000, NULL);
		bufferevent_set_rate_limit(bev, cfg);
	}
	memset(data, 'w', sizeof(data));
	bufferevent_write(bev, data, sizeof(data));
	bufferevent_enable(bev, EV_WRITE);
	event_base_loop(base, EVLOOP_ONCE | EVLOOP_NONBLOCK);	/* exactly one write operation */
	n = read(sv[1], sink, sizeof(sink));
	printf("%s rate limit: one write operation moved %d bytes (max_single_write is 1000)\n", with_limit ? "with" : "without", n);
	return n > 1000;
}
