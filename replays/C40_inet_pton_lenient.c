/* replay for K6:evutil_inet_pton:v4/v6:accepts-invalid (C40)
 * evutil_inet_pton (internal implementation, USE_INTERNAL_PTON) parsed IPv4 components with sscanf("%u") - which skips white space, takes
 * a sign and wraps at 2^32 - and IPv6 groups with strtol(.., 16) - which takes a "0x" prefix - and did not notice a single trailing colon.
 * C40: it accepts exactly the strings the platform's strict parser accepts (IPv4 components may carry leading zeros).
 * build: cc -g -I/repo/include -I<build>/include C40_inet_pton_lenient.c <build>/lib/libevent_core.a -o t && ./t
 * exit 0 = every listed text is treated like the platform's inet_pton treats it; 1 = a malformed text was accepted. */
#include <event2/util.h>
#include <arpa/inet.h>
#include <stdio.h>
#include <string.h>
int main(void)
{
	static const struct { int af; const char *s; } t[] = {
		{AF_INET, " 1.2.3.4"}, {AF_INET, "+1.2.3.4"}, {AF_INET, "1.+2.3.4"}, {AF_INET, "1. 2.3.4"}, {AF_INET, "1.-0.3.4"}, {AF_INET, "4294967297.2.3.4"},
		{AF_INET6, "1:2:3:4:5:6:7:8:"}, {AF_INET6, "::1:"}, {AF_INET6, "::0x1"}, {AF_INET6, "0x1::"}, {AF_INET6, "::1.+2.3.4"}, {AF_INET6, "::1. 2.3.4"},
		/* controls: valid */
		{AF_INET, "1.2.3.4"}, {AF_INET, "255.255.255.255"}, {AF_INET6, "::1"}, {AF_INET6, "1::"}, {AF_INET6, "1:2:3:4:5:6:7:8"}, {AF_INET6, "::ffff:1.2.3.4"},
		{AF_INET6, "1:2:3:4:5:6:7::"}, {AF_INET6, "fe80::1"}, {AF_INET6, "1:2:3:4:5:6:1.2.3.4"},
		/* controls: invalid */
		{AF_INET, "1.2.3"}, {AF_INET, "256.1.1.1"}, {AF_INET6, "1:2:3:4:5:6:7"}, {AF_INET6, "1:::2"}, {AF_INET6, "12345::"},
	};
	unsigned i; int bad = 0;
	for (i = 0; i < sizeof(t) / sizeof(t[0]); i++) {
		unsigned char a[16], b[16];
		int r1, r2;
		memset(a, 0, sizeof(a)); memset(b, 0, sizeof(b));
		r1 = evutil_inet_pton(t[i].af, t[i].s, a);
		r2 = inet_pton(t[i].af, t[i].s, b);
		if (r1 != r2 || (r1 == 1 && memcmp(a, b, t[i].af == AF_INET ? 4 : 16))) {
			printf("DIFFERS: %-5s \"%s\": evutil_inet_pton -> %d, platform inet_pton -> %d\n", t[i].af == AF_INET ? "IPv4" : "IPv6", t[i].s, r1, r2);
			bad = 1;
		}
	}
	if (!bad) printf("ok: all %u texts treated like the platform parser\n", i);
	return bad;
}
