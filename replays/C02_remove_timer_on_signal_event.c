/* replay for K4:event_remove_timer_nolock_:io-timeout-store-on-signal-event (C02)
 * struct event keeps ev_io_timeout in a union with the call counters of a signal event (ev_ncalls, ev_pncalls).  event_remove_timer() cleared
 * ev_io_timeout whenever a timeout was pending - also for a signal event that had been added with a timeout: its pending deliveries were zeroed
 * and the callback never ran.
 * build: cc -g -I/repo/include -I<build>/include C02_remove_timer_on_signal_event.c <build>/lib/libevent.a -o t && ./t ; exit 0 = both deliveries reported */
#include <event2/event.h>
#include <signal.h>
#include <stdio.h>
static int calls;
static void cb(evutil_socket_t fd, short what, void *arg) { (void)fd; (void)what; (void)arg; calls++; }
int main(void)
{
	struct event_base *base = event_base_new();
	struct event *sig = evsignal_new(base, SIGUSR1, cb, NULL);
	struct timeval tv = {10, 0};
	event_add(sig, &tv);                   /* a signal event with a timeout */
	event_active(sig, EV_SIGNAL, 2);       /* two deliveries pending */
	event_remove_timer(sig);               /* the user no longer wants the timeout */
	event_base_loop(base, EVLOOP_NONBLOCK);
	printf("signal callback ran %d time(s), expected 2\n", calls);
	return calls == 2 ? 0 : 1;
}
