/* replay for K1:evdns_getaddrinfo_fromhosts:evdns_base.lock:returns-disagree and
 * K1:evdns_cache_lookup:evdns_base.lock:returns-disagree
 * Both functions `goto out` past EVDNS_UNLOCK when evutil_new_addrinfo_ fails (allocation failure).
 * The evdns lock is recursive, so the leak shows when the base is freed: the debug lock asserts count == 0.
 * usage: a.out hosts | cache.   Expected: exit 0 on a repaired tree.
 * cc -fsanitize=address -I/repo/include -I/tmp/replay/b/include C08_evdns_fromhosts.c /tmp/replay/b/lib/libevent.a /tmp/replay/b/lib/libevent_pthreads.a -lpthread */
#include <event2/event.h>
#include <event2/dns.h>
#include <event2/thread.h>
#include <event2/util.h>
#include <stdio.h>
#include <stdlib.h>
#include <string.h>
#include <netinet/in.h>
#include <arpa/inet.h>
static int fail_next = 0;
static void *my_malloc(size_t n) { if (fail_next > 0 && --fail_next == 0) return NULL; return malloc(n); }
static void *my_realloc(void *p, size_t n) { return realloc(p, n); }
static void my_free(void *p) { free(p); }
static void gai_cb(int err, struct evutil_addrinfo *ai, void *arg)
{
	printf("getaddrinfo callback: err=%d ai=%p\n", err, (void *)ai);
	if (ai) evutil_freeaddrinfo(ai);
	(void)arg;
}
int main(int argc, char **argv)
{
	struct event_base *base;
	struct evdns_base *dns;
	struct evutil_addrinfo hints;
	int mode_cache = argc > 1 && !strcmp(argv[1], "cache");
	event_set_mem_functions(my_malloc, my_realloc, my_free);
	evthread_use_pthreads();
	evthread_enable_lock_debugging();
	base = event_base_new();
	dns = evdns_base_new(base, 0);
	memset(&hints, 0, sizeof(hints));
	hints.ai_family = PF_INET;
	hints.ai_socktype = SOCK_STREAM;
	if (!mode_cache) {
		FILE *f = fopen("/tmp/replay/hosts.txt", "w");
		fprintf(f, "10.1.2.3 replayhost\n");
		fclose(f);
		evdns_base_load_hosts(dns, "/tmp/replay/hosts.txt");
		/* make the first allocation inside the hosts lookup fail: try increasing failure points */
		{
			int k;
			for (k = 1; k <= 6; ++k) {
				fail_next = k;
				evdns_getaddrinfo(dns, "replayhost", "80", &hints, gai_cb, NULL);
				fail_next = 0;
			}
		}
	} else {
		struct evutil_addrinfo *res = NULL, *out = NULL;
		int k;
		evutil_getaddrinfo("10.9.8.7", "80", &hints, &res);
		evdns_cache_write(dns, (char *)"cachedhost", res, 100);
		for (k = 1; k <= 4; ++k) {
			int r;
			fail_next = k;
			r = evdns_cache_lookup(dns, "cachedhost", &hints, 80, &out);
			fail_next = 0;
			printf("cache lookup with allocation %d failing: %d\n", k, r);
			if (r == 0 && out) { evutil_freeaddrinfo(out); out = NULL; }
		}
		evutil_freeaddrinfo(res);
	}
	/* frees the evdns lock: the debug lock asserts that nobody holds it */
	evdns_base_free(dns, 0);
	event_base_free(base);
	printf("evdns lock was free at evdns_base_free\n");
	return 0;
}
