/* replay for K6:evhttp_uri_join:path-read-as-authority / path-read-as-scheme and K6:evhttp_uri_set_port:range (C28)
 * "Any URI whose components were accepted by the setters either joins into such a string [one that parses into identical components] or is
 * refused by join."  RFC 3986 3.3: without an authority the path cannot begin with "//"; without a scheme its first segment cannot contain ':'.
 * evhttp_uri_join wrote such paths out unchanged, so the joined string parsed into a different URI (the path became the host / the scheme);
 * evhttp_uri_set_port accepted ports above 65535, which join writes and the parser then rejects.
 * build: cc -g -I/repo/include -I<build>/include C28_join_ambiguous.c <build>/lib/libevent.a -o t && ./t
 * exit 0 = join refuses, or its output parses back to the same components; 1 = a joined URI changed meaning. */
#include <event2/http.h>
#include <stdio.h>
#include <string.h>
static int same(const char *a, const char *b) { return (!a && !b) || (a && b && !strcmp(a, b)); }
static int one(const char *name, const char *scheme, const char *host, int port, const char *path)
{
	struct evhttp_uri *u = evhttp_uri_new(), *v;
	char buf[256]; int bad = 0, rs;
	if (scheme) evhttp_uri_set_scheme(u, scheme);
	if (host) evhttp_uri_set_host(u, host);
	rs = evhttp_uri_set_port(u, port);
	if (path && evhttp_uri_set_path(u, path) != 0) { printf("%-34s path refused by the setter\n", name); evhttp_uri_free(u); return 0; }
	if (rs != 0) { printf("%-34s port %d refused by the setter: ok\n", name, port); evhttp_uri_free(u); return 0; }
	if (!evhttp_uri_join(u, buf, sizeof(buf))) { printf("%-34s join refuses: ok\n", name); evhttp_uri_free(u); return 0; }
	v = evhttp_uri_parse(buf);
	if (!v) { printf("%-34s joined \"%s\" does not parse                                   WRONG\n", name, buf); evhttp_uri_free(u); return 1; }
	if (!same(evhttp_uri_get_scheme(u), evhttp_uri_get_scheme(v)) || !same(evhttp_uri_get_host(u), evhttp_uri_get_host(v)) ||
	    !same(evhttp_uri_get_path(u), evhttp_uri_get_path(v)) || evhttp_uri_get_port(u) != evhttp_uri_get_port(v)) bad = 1;
	printf("%-34s joined \"%s\" -> scheme=%s host=%s port=%d path=%s   %s\n", name, buf, evhttp_uri_get_scheme(v) ? evhttp_uri_get_scheme(v) : "-",
	    evhttp_uri_get_host(v) ? evhttp_uri_get_host(v) : "-", evhttp_uri_get_port(v), evhttp_uri_get_path(v), bad ? "WRONG" : "ok");
	evhttp_uri_free(u); evhttp_uri_free(v);
	return bad;
}
int main(void)
{
	int bad = 0;
	bad |= one("path //x/y, no host", NULL, NULL, -1, "//x/y");
	bad |= one("scheme, path //x/y, no host", "http", NULL, -1, "//x/y");
	bad |= one("path a:b/c, no scheme", NULL, NULL, -1, "a:b/c");
	bad |= one("port 70000", "http", "example.com", 70000, "/");
	bad |= one("control: relative path", NULL, NULL, -1, "a/b:c");
	bad |= one("control: full", "http", "example.com", 8080, "/p");
	return bad;
}
