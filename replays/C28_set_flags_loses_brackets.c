/* replay for K2:evhttp_uri_set_flags:internal-bit (C28): a URI parsed with EVHTTP_URI_HOST_STRIP_BRACKETS keeps "::1" as host and remembers the
 * brackets in an internal flag bit.  evhttp_uri_set_flags() stored the caller's flags over that bit, so even re-setting the very same public flags
 * made evhttp_uri_join() write "http://::1:80/", which does not parse.
 * build: cc -g -I/repo/include -I<build>/include C28_set_flags_loses_brackets.c <build>/lib/libevent.a -o t && ./t ; exit 0 = joined string parses back */
#include <event2/http.h>
#include <stdio.h>
#include <string.h>
int main(void)
{
	char buf[128];
	struct evhttp_uri *u = evhttp_uri_parse_with_flags("http://[::1]:80/", EVHTTP_URI_HOST_STRIP_BRACKETS), *v;
	if (!u) return 2;
	evhttp_uri_set_flags(u, EVHTTP_URI_HOST_STRIP_BRACKETS);
	if (!evhttp_uri_join(u, buf, sizeof buf)) { printf("join refused\n"); return 0; }
	v = evhttp_uri_parse_with_flags(buf, EVHTTP_URI_HOST_STRIP_BRACKETS);
	printf("joined: %s -> %s\n", buf, v ? "parses" : "does NOT parse");
	if (v) printf("host %s port %d\n", evhttp_uri_get_host(v), evhttp_uri_get_port(v));
	return (v && !strcmp(evhttp_uri_get_host(v), "::1") && evhttp_uri_get_port(v) == 80) ? 0 : 1;
}
