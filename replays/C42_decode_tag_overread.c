/* replay for K4:decode_tag_internal:read-beyond-pullup
 * decode_tag_internal pulls up min(len, 5) bytes but its loop is bounded by len and reads *data++ BEFORE testing that the
 * shift is out of range: with a 5-byte first chain made of continuation bytes and more data behind it, the 6th read is one
 * byte past the memory evbuffer_pullup() guaranteed. Expected: -1 without touching byte 6; unchanged tree: heap-buffer-overflow. */
#include <event2/buffer.h>
#include <event2/tag.h>
#include <stdio.h>
#include <stdlib.h>
#include <string.h>
static void cleanup(const void *d, size_t n, void *x) { (void)n; (void)x; free((void *)d); }
int main(void)
{
	struct evbuffer *b = evbuffer_new();
	unsigned char *five = malloc(5);
	ev_uint32_t tag = 0;
	int r;
	memset(five, 0x80, 5);			/* five continuation bytes, low bits 0 */
	evbuffer_add_reference(b, five, 5, cleanup, NULL);	/* a chain whose memory is exactly 5 bytes */
	evbuffer_add(b, "\x80\x80\x01", 3);			/* more data in another chain */
	r = evtag_peek(b, &tag);
	printf("evtag_peek returned %d\n", r);
	evbuffer_free(b);
	return 0;
}
