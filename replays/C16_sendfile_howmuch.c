/* replay for K8:evbuffer_write_sendfile:length-independent-of-howmuch
 * evbuffer_write_atmost(buf, fd, howmuch) must never write more than howmuch bytes.  For a sendfile chain the Linux branch of
 * evbuffer_write_sendfile passes chain->off to sendfile(), ignoring howmuch.  Expected: at most 10 bytes written. */
#include <event2/buffer.h>
#include <stdio.h>
#include <stdlib.h>
#include <string.h>
#include <unistd.h>
#include <fcntl.h>
#include <sys/socket.h>
int main(void)
{
	char path[] = "/tmp/replay/sendfileXXXXXX";
	char data[1000];
	int fd = mkstemp(path), sv[2], n;
	struct evbuffer *b = evbuffer_new();
	memset(data, 'z', sizeof(data));
	if (write(fd, data, sizeof(data)) != (ssize_t)sizeof(data)) return 2;
	socketpair(AF_UNIX, SOCK_STREAM, 0, sv);
	evbuffer_set_flags(b, EVBUFFER_FLAG_DRAINS_TO_FD);
	if (evbuffer_add_file(b, fd, 0, sizeof(data)) != 0) { printf("add_file failed\n"); return 2; }
	n = evbuffer_write_atmost(b, sv[0], 10);
	printf("asked for at most 10 bytes, evbuffer_write_atmost wrote %d, %zu left\n", n, evbuffer_get_length(b));
	unlink(path);
	return n > 10;
}
