/* replay for K12:decode_int_internal:pullup-result-used-before-null-test (and evtag_unmarshal)
 * DECODE_INT_INTERNAL computes `evbuffer_pullup(evbuf, offset + 1) + offset` and only then tests for NULL: when pullup fails
 * (allocation failure) with offset > 0 the test passes and the decoder dereferences address `offset`.
 * usage: a.out peek | unmarshal.  Expected: -1; unchanged tree: SEGV. */
#include <event2/buffer.h>
#include <event2/event.h>
#include <event2/tag.h>
#include <stdio.h>
#include <stdlib.h>
#include <string.h>
static int fail_all = 0;
static void *my_malloc(size_t n) { if (fail_all) return NULL; return malloc(n); }
static void *my_realloc(void *p, size_t n) { return realloc(p, n); }
static void my_free(void *p) { free(p); }
int main(int argc, char **argv)
{
	struct evbuffer *b, *dst;
	static unsigned char tagbyte[1] = { 0x05 };
	static unsigned char lenbyte[2] = { 0x02 /* 1 nibble: value 2 */, 0 };
	/* tag 0x05, then an integer announcing 8 nibbles (5 bytes): 0x70 0x00 0x00 0x00 | 0x01 in the next chain */
	static unsigned char five[5] = { 0x05, 0x70, 0x00, 0x00, 0x00 };
	ev_uint32_t v = 0;
	int r;
	event_set_mem_functions(my_malloc, my_realloc, my_free);
	b = evbuffer_new(); dst = evbuffer_new();
	evbuffer_add_reference(b, tagbyte, 1, NULL, NULL);	/* tag in its own 1-byte chain */
	evbuffer_add_reference(b, lenbyte, 1, NULL, NULL);	/* encoded length 2 in the next chain */
	evbuffer_add_reference(b, "x", 1, NULL, NULL);
	evbuffer_add_reference(b, "y", 1, NULL, NULL);
	fail_all = 1;
	if (argc > 1 && !strcmp(argv[1], "unmarshal")) {
		ev_uint32_t tag;
		/* tag 5, length 4, payload "abc" in one chain and "d" in the next */
		static unsigned char hdr[5] = { 0x05, 0x04, 'a', 'b', 'c' };
		evbuffer_free(b);
		fail_all = 0;
		b = evbuffer_new();
		evbuffer_add_reference(b, hdr, 5, NULL, NULL);
		evbuffer_add_reference(b, "d", 1, NULL, NULL);
		evbuffer_expand(dst, 64);	/* dst can take the bytes without allocating */
		fail_all = 1;
		r = evtag_unmarshal(b, &tag, dst);	/* payload spans two chains: pullup must allocate and fails */
		printf("evtag_unmarshal returned %d\n", r);
	} else {
		evbuffer_free(b);
		fail_all = 0;
		b = evbuffer_new();
		evbuffer_add_reference(b, five, 5, NULL, NULL);	/* first 5 bytes contiguous, no room to grow */
		evbuffer_add_reference(b, "\x01", 1, NULL, NULL);	/* 6th byte in another chain */
		fail_all = 1;
		r = evtag_peek_length(b, &v);	/* decode_int_internal(…, offset = 1) must pull up 2 bytes across chains */
		printf("evtag_peek_length returned %d (%u)\n", r, v);
	}
	return 0;
}
