/* replay for K6:be_pair_transfer:flush-leaves-bytes (C17)
 * A bufferevent pair: the reader has a read high watermark of 10; the writer writes 100 bytes while the reader has reading disabled, and the writer flushes with BEV_FINISHED.  be_pair_transfer(.., ignore_wm=1) still moves only up to the watermark when the
 * reader is below it, and be_pair_flush then reports BEV_EVENT_EOF to the reader: end of stream is announced while 90 bytes written before the
 * shutdown are still undelivered; they arrive after the EOF.
 * build: cc -g -I/repo/include -I<build>/include C17_pair_finished_flush_watermark.c <build>/lib/libevent.a -o t && ./t ; exit 0 = every byte was
 * delivered before EOF */
#include <event2/event.h>
#include <event2/bufferevent.h>
#include <event2/buffer.h>
#include <stdio.h>
#include <string.h>
static size_t got_before_eof, got_total; static int eofs;
static int rc; static void readcb(struct bufferevent *b, void *arg) { (void)arg; (void)b; if (++rc > 5) { printf("readcb called %d times without new data\n", rc); event_base_loopbreak(bufferevent_get_base(b)); } }
static void eventcb(struct bufferevent *b, short what, void *arg)
{
	(void)arg;
	if (what & BEV_EVENT_EOF) { eofs++; got_before_eof = evbuffer_get_length(bufferevent_get_input(b)); }
}
int main(void)
{
	struct event_base *base = event_base_new();
	struct bufferevent *p[2];
	char data[100]; memset(data, 'x', sizeof data);
	bufferevent_pair_new(base, 0, p);
	bufferevent_setcb(p[1], readcb, NULL, eventcb, NULL);
	bufferevent_setwatermark(p[1], EV_READ, 0, 10);
	bufferevent_enable(p[0], EV_WRITE);
	bufferevent_disable(p[1], EV_READ);
	bufferevent_write(p[0], data, sizeof data);
	bufferevent_flush(p[0], EV_WRITE, BEV_FINISHED);
	event_base_loop(base, EVLOOP_NONBLOCK);
	got_total = got_before_eof;
	if (eofs == 1 && evbuffer_get_length(bufferevent_get_output(p[0]))) {
		/* the reader consumes what it has and goes on reading after the end of stream was announced */
		evbuffer_drain(bufferevent_get_input(p[1]), got_before_eof);
		bufferevent_enable(p[1], EV_READ);
		printf("after EOF the reader received %zu more byte(s)\n", evbuffer_get_length(bufferevent_get_input(p[1])));
	}
	printf("EOF events %d; bytes in the reader's input at EOF: %zu; still in the writer's output: %zu (written: 100)\n", eofs, got_before_eof,
	    evbuffer_get_length(bufferevent_get_output(p[0])));
	return (eofs == 1 && got_before_eof == 100) ? 0 : 1;
}
