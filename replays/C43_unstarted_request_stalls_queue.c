/* replay for K3:evrpc_schedule_request:completion-without-reschedule (C43)
 * A request that cannot be started (here: a client OUTPUT hook answers EVRPC_TERMINATE for it) completes with
 * EVRPC_STATUS_ERR_UNSTARTED - but nothing looks at the pool's queue afterwards: the connection is free and the requests
 * queued behind it wait for an unrelated event.  With one connection and three requests (#1 terminated by the hook), request
 * #2 never completes.
 * build: cc -g -I/repo/include -I<build>/include C43_unstarted_request_stalls_queue.c <build>/lib/libevent.a -o t && ./t
 * exit 0 = all three requests complete exactly once (#1 with the UNSTARTED error); 1 = a request never completed. */
#include <stdio.h>
#include <stdlib.h>
#include <string.h>
#include <signal.h>
#include <unistd.h>
#include <sys/socket.h>
#include <netinet/in.h>
#include <arpa/inet.h>

#include <event2/event.h>
#include <event2/buffer.h>
#include <event2/http.h>
#include <event2/rpc.h>
#include <event2/rpc_struct.h>
#include <event2/tag.h>

/* ---- a minimal message type: one required int field, tag 1 ---- */
struct msg {
	ev_uint32_t val;
	int val_set;
};

static void *msg_new(void *arg) { (void)arg; return calloc(1, sizeof(struct msg)); }
static void msg_free(void *m) { free(m); }
static void msg_clear(void *m) { memset(m, 0, sizeof(struct msg)); }
static int msg_complete(void *p) { struct msg *m = p; return m->val_set ? 0 : -1; }
static void msg_marshal(struct evbuffer *buf, void *p)
{
	struct msg *m = p;
	evtag_marshal_int(buf, 1, m->val);
}
static int msg_unmarshal(void *p, struct evbuffer *buf)
{
	struct msg *m = p;
	ev_uint32_t tag;
	while (evbuffer_get_length(buf) > 0) {
		if (evtag_peek(buf, &tag) == -1)
			return -1;
		if (tag != 1 || m->val_set)
			return -1;
		if (evtag_unmarshal_int(buf, 1, &m->val) == -1)
			return -1;
		m->val_set = 1;
	}
	return msg_complete(m);
}

/* ---- server ---- */
static int server_calls;

static void
server_handler(struct evrpc_req_generic *rpc, void *arg)
{
	struct msg *rq = evrpc_get_request(rpc);
	struct msg *rp = evrpc_get_reply(rpc);
	(void)arg;
	server_calls++;
	rp->val = rq->val + 1000;
	rp->val_set = 1;
	evrpc_request_done(rpc);
}

/* ---- client ---- */
#define NREQ 3
static struct event_base *base;
static struct evrpc_pool *pool;
static struct msg requests[NREQ], replies[NREQ];
static int completions[NREQ];
static int errors[NREQ];
static int ndone;

static int hook_calls;
/* client output hook: refuse the second request that is started */
static int
output_hook(void *ctx, struct evhttp_request *req, struct evbuffer *buf, void *arg)
{
	(void)ctx; (void)req; (void)buf; (void)arg;
	return (++hook_calls == 2) ? EVRPC_TERMINATE : EVRPC_CONTINUE;
}

static void
client_cb(struct evrpc_status *status, void *request, void *reply, void *arg)
{
	int i = (int)(long)arg;
	struct msg *rq = request, *rp = reply;

	completions[i]++;
	if (status->error != EVRPC_STATUS_ERR_NONE) {
		errors[i] = status->error;
		fprintf(stderr, "request %d: error status %d\n", i, status->error);
	} else if (!rp->val_set || rp->val != rq->val + 1000) {
		errors[i] = -1;
		fprintf(stderr, "request %d: wrong reply %u for %u\n", i,
		    (unsigned)rp->val, (unsigned)rq->val);
	} else {
		printf("request %d completed: %u -> %u\n", i,
		    (unsigned)rq->val, (unsigned)rp->val);
	}
	if (++ndone == NREQ) {
		/* run a little longer so that a duplicate completion would show */
		struct timeval tv = { 0, 200 * 1000 };
		event_base_loopexit(base, &tv);
	}
}

static void
deadline_cb(evutil_socket_t fd, short what, void *arg)
{
	(void)fd; (void)what; (void)arg;
	fprintf(stderr, "deadline reached: only %d of %d RPCs completed\n",
	    ndone, NREQ);
	event_base_loopexit(base, NULL);
}

static void
on_alarm(int sig)
{
	static const char m[] = "FAIL: alarm - event loop hung\n";
	(void)sig;
	if (write(2, m, sizeof(m) - 1) < 0) {}
	_exit(2);
}

int
main(void)
{
	struct evhttp *http;
	struct evhttp_bound_socket *sock;
	struct evrpc_base *rpcbase;
	struct evhttp_connection *evcon;
	struct sockaddr_storage ss;
	ev_socklen_t slen = sizeof(ss);
	struct event *deadline;
	struct timeval tv = { 2, 0 };
	int port, i, bad = 0;

	signal(SIGALRM, on_alarm);
	alarm(30);

	base = event_base_new();
	http = evhttp_new(base);
	sock = evhttp_bind_socket_with_handle(http, "127.0.0.1", 0);
	if (!sock) { perror("bind"); return 3; }
	getsockname(evhttp_bound_socket_get_fd(sock), (struct sockaddr *)&ss, &slen);
	port = ntohs(((struct sockaddr_in *)&ss)->sin_port);

	rpcbase = evrpc_init(http);
	evrpc_register_generic(rpcbase, "Bump", server_handler, NULL,
	    msg_new, NULL, msg_free, msg_unmarshal,
	    msg_new, NULL, msg_free, msg_complete, msg_marshal);

	pool = evrpc_pool_new(base);
	evcon = evhttp_connection_base_new(base, NULL, "127.0.0.1", port);
	evrpc_pool_add_connection(pool, evcon);	/* exactly one connection */
	evrpc_add_hook(pool, EVRPC_OUTPUT, output_hook, NULL);

	/* three requests at once: #0 goes out, #1 and #2 wait in the pool */
	for (i = 0; i < NREQ; i++) {
		requests[i].val = 7 + i;
		requests[i].val_set = 1;
		evrpc_send_request_generic(pool, &requests[i], &replies[i],
		    client_cb, (void *)(long)i, "Bump",
		    msg_marshal, msg_clear, msg_unmarshal);
	}

	deadline = evtimer_new(base, deadline_cb, NULL);
	evtimer_add(deadline, &tv);

	event_base_dispatch(base);

	for (i = 0; i < NREQ; i++) {
		if (completions[i] != 1) {
			fprintf(stderr, "FAIL: request %d completed %d times "
			    "(expected exactly once)\n", i, completions[i]);
			bad = 1;
		} else if ((i == 1) != (errors[i] == EVRPC_STATUS_ERR_UNSTARTED)) {
			fprintf(stderr, "FAIL: request %d completed with status %d\n",
			    i, errors[i]);
			bad = 1;
		}
	}
	if (server_calls != NREQ - 1) {
		fprintf(stderr, "FAIL: server handler ran %d times, expected %d\n",
		    server_calls, NREQ - 1);
		bad = 1;
	}
	if (bad)
		return 1;
	printf("PASS: %d RPCs, each completed exactly once with the server's reply\n",
	    NREQ);
	return 0;
}
