/* replay for K8:evhttp_make_request:uri-unvalidated (and the reason-phrase sibling)
 * A request target containing CR LF is written verbatim into the request line: the peer sees an extra header field. */
#include <event2/event.h>
#include <event2/http.h>
#include <event2/listener.h>
#include <event2/bufferevent.h>
#include <event2/buffer.h>
#include <stdio.h>
#include <string.h>
#include <arpa/inet.h>
static struct event_base *base;
static char seen[4096];
static void rd(struct bufferevent *bev, void *arg)
{
	size_t n = strlen(seen);
	int r = bufferevent_read(bev, seen + n, sizeof(seen) - 1 - n);
	(void)arg; (void)r;
	if (strstr(seen, "\r\n\r\n")) event_base_loopbreak(base);
}
static void acc(struct evconnlistener *l, evutil_socket_t fd, struct sockaddr *sa, int slen, void *arg)
{
	struct bufferevent *bev = bufferevent_socket_new(base, fd, BEV_OPT_CLOSE_ON_FREE);
	(void)l; (void)sa; (void)slen; (void)arg;
	bufferevent_setcb(bev, rd, NULL, NULL, NULL);
	bufferevent_enable(bev, EV_READ);
}
int main(void)
{
	struct sockaddr_in sin; ev_socklen_t sl = sizeof(sin);
	struct evconnlistener *lev;
	struct evhttp_connection *evcon;
	struct evhttp_request *req;
	struct timeval tv = {2, 0};
	int rc;
	base = event_base_new();
	memset(&sin, 0, sizeof(sin)); sin.sin_family = AF_INET; sin.sin_addr.s_addr = htonl(0x7f000001);
	lev = evconnlistener_new_bind(base, acc, NULL, LEV_OPT_CLOSE_ON_FREE|LEV_OPT_REUSEABLE, -1, (struct sockaddr*)&sin, sizeof(sin));
	getsockname(evconnlistener_get_fd(lev), (struct sockaddr*)&sin, &sl);
	evcon = evhttp_connection_base_new(base, NULL, "127.0.0.1", ntohs(sin.sin_port));
	req = evhttp_request_new(NULL, NULL);
	evhttp_add_header(evhttp_request_get_output_headers(req), "Host", "localhost");
	rc = evhttp_make_request(evcon, req, EVHTTP_REQ_GET, "/x HTTP/1.1\r\nX-Injected: yes\r\nX-Rest: ");
	printf("evhttp_make_request returned %d\n", rc);
	event_base_loopexit(base, &tv);
	event_base_dispatch(base);
	printf("--- bytes on the wire ---\n%s\n", seen);
	return strstr(seen, "\r\nX-Injected: yes\r\n") != NULL;
}
