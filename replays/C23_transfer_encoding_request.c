/* replay for K6:evhttp_get_body:framing (request side, C23)
 * RFC 9112 6.1/6.3: a request whose Transfer-Encoding does not END in "chunked" cannot be framed and must be rejected;
 * one that ends in chunked ("gzip, chunked") is chunked.  libevent compared the whole field value with "chunked" and
 * otherwise fell back to Content-Length / "no body": the body bytes were then parsed as the next pipelined request
 * (request smuggling).  Also: "Content-Length: +5" was accepted (strtoll), RFC: 1*DIGIT only.
 * build: cc -g -I/repo/include -I<build>/include C23_transfer_encoding_request.c <build>/lib/libevent.a -o t && ./t
 * exit 0 = every case framed as the RFC says; 1 = a case was mis-framed. */
#include <event2/event.h>
#include <event2/http.h>
#include <event2/buffer.h>
#include <event2/bufferevent.h>
#include <stdio.h>
#include <string.h>
#include <stdlib.h>
#include <unistd.h>
#include <arpa/inet.h>
static struct event_base *base;
static char seen[2048];
static void gen(struct evhttp_request *req, void *arg)
{
	struct evbuffer *in = evhttp_request_get_input_buffer(req);
	char body[256]; int n = evbuffer_copyout(in, body, sizeof(body) - 1);
	(void)arg; if (n < 0) n = 0; body[n] = 0;
	snprintf(seen + strlen(seen), sizeof(seen) - strlen(seen), "[%s body=%s]", evhttp_request_get_uri(req), body);
	evhttp_send_reply(req, 200, "OK", NULL);
}
static void stop(evutil_socket_t fd, short w, void *a) { (void)fd; (void)w; (void)a; event_base_loopbreak(base); }
static int run(const char *name, const char *wire, const char *must_not, const char *must)
{
	struct evhttp *http = evhttp_new(base);
	struct evhttp_bound_socket *b = evhttp_bind_socket_with_handle(http, "127.0.0.1", 0);
	struct sockaddr_in sin; ev_socklen_t sl = sizeof(sin);
	struct timeval tv = {0, 300000};
	int fd, bad = 0;
	seen[0] = 0;
	evhttp_set_gencb(http, gen, NULL);
	getsockname(evhttp_bound_socket_get_fd(b), (struct sockaddr *)&sin, &sl);
	fd = socket(AF_INET, SOCK_STREAM, 0);
	connect(fd, (struct sockaddr *)&sin, sizeof(sin));
	if (write(fd, wire, strlen(wire)) < 0) return 1;
	event_base_once(base, -1, EV_TIMEOUT, stop, NULL, &tv);
	event_base_dispatch(base);
	if (must_not && strstr(seen, must_not)) bad = 1;
	if (must && !strstr(seen, must)) bad = 1;
	printf("%-34s callbacks: %-50s %s\n", name, seen[0] ? seen : "(none)", bad ? "MIS-FRAMED" : "ok");
	close(fd); evhttp_free(http);
	return bad;
}
int main(void)
{
	int bad = 0;
	base = event_base_new();
	bad |= run("TE: gzip (not final chunked)", "POST /a HTTP/1.1\r\nHost: x\r\nTransfer-Encoding: gzip\r\n\r\nGET /smuggled HTTP/1.1\r\nHost: x\r\n\r\n", "/smuggled", NULL);
	bad |= run("TE: gzip + Content-Length", "POST /a HTTP/1.1\r\nHost: x\r\nTransfer-Encoding: gzip\r\nContent-Length: 4\r\n\r\nabcdGET /smuggled HTTP/1.1\r\nHost: x\r\n\r\n", "/smuggled", NULL);
	bad |= run("TE: gzip, chunked", "POST /a HTTP/1.1\r\nHost: x\r\nTransfer-Encoding: gzip, chunked\r\n\r\n5\r\nhello\r\n0\r\n\r\n", NULL, "[/a body=hello]");
	bad |= run("TE: chunked (control)", "POST /a HTTP/1.1\r\nHost: x\r\nTransfer-Encoding: chunked\r\n\r\n5\r\nhello\r\n0\r\n\r\n", NULL, "[/a body=hello]");
	bad |= run("Content-Length: +5", "POST /a HTTP/1.1\r\nHost: x\r\nContent-Length: +5\r\n\r\nhello", "/a", NULL);
	bad |= run("Content-Length: 5 (control)", "POST /a HTTP/1.1\r\nHost: x\r\nContent-Length: 5\r\n\r\nhello", NULL, "[/a body=hello]");
	return bad;
}
