/* replay for K5:evbuffer_prepend:commit-before-fallible:evbuffer_chain_new_membuf
 * evbuffer_prepend copies the tail of the data into the first chain's misalignment and updates off/total_len/n_add_for_cb
 * BEFORE allocating the chain for the rest; when that allocation fails it returns -1 with the buffer already changed. */
#include <event2/buffer.h>
#include <event2/event.h>
#include <stdio.h>
#include <stdlib.h>
#include <string.h>
static int fail_next = 0;
static void *my_malloc(size_t n) { if (fail_next) { fail_next = 0; return NULL; } return malloc(n); }
static void *my_realloc(void *p, size_t n) { return realloc(p, n); }
static void my_free(void *p) { free(p); }
int main(void)
{
	struct evbuffer *b;
	char data[100], pre[50], out[200];
	size_t before, after;
	int r;
	event_set_mem_functions(my_malloc, my_realloc, my_free);
	b = evbuffer_new();
	memset(data, 'd', sizeof(data)); memset(pre, 'p', sizeof(pre));
	evbuffer_add(b, data, sizeof(data));
	evbuffer_drain(b, 10);			/* first chain now has misalign == 10 */
	before = evbuffer_get_length(b);
	fail_next = 1;
	r = evbuffer_prepend(b, pre, sizeof(pre));	/* needs a new chain for 40 bytes: allocation fails */
	after = evbuffer_get_length(b);
	evbuffer_copyout(b, out, 12);
	out[12] = 0;
	printf("prepend returned %d; length %zu -> %zu; starts with '%s'\n", r, before, after, out);
	evbuffer_free(b);
	return (r == -1 && after != before) ? 1 : 0;
}
