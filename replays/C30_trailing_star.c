/* replay for K6:prefix_suffix_match:glob (C30): evhttp_add_virtual_host documents shell matching for the pattern.  A '*' at the end of the pattern
 * matched nothing (not even the empty rest): the loop that tries every rest of the name stopped before the empty one.  "www.*" and "*" never selected
 * their virtual host.
 * build: cc -g -I/repo/include -I<build>/include C30_trailing_star.c <build>/lib/libevent.a -o t && ./t ; exit 0 = the vhost is chosen */
#include <event2/event.h>
#include <event2/http.h>
#include <event2/buffer.h>
#include <event2/bufferevent.h>
#include <stdio.h>
#include <string.h>
static int hit_vhost, hit_root;
static void vcb(struct evhttp_request *r, void *a) { (void)a; hit_vhost++; evhttp_send_reply(r, 200, "OK", NULL); }
static void rcb(struct evhttp_request *r, void *a) { (void)a; hit_root++; evhttp_send_reply(r, 200, "OK", NULL); }
static void done(struct evhttp_request *r, void *a) { (void)r; event_base_loopbreak(a); }
int main(void)
{
	struct event_base *base = event_base_new();
	struct evhttp *http = evhttp_new(base), *vh = evhttp_new(base);
	struct evhttp_bound_socket *bs = evhttp_bind_socket_with_handle(http, "127.0.0.1", 0);
	struct sockaddr_storage ss; ev_socklen_t sl = sizeof ss; int port;
	struct evhttp_connection *c; struct evhttp_request *rq;
	getsockname(evhttp_bound_socket_get_fd(bs), (struct sockaddr *)&ss, &sl);
	port = ntohs(((struct sockaddr_in *)&ss)->sin_port);
	evhttp_set_gencb(http, rcb, NULL);
	evhttp_set_gencb(vh, vcb, NULL);
	evhttp_add_virtual_host(http, "www.*", vh);
	c = evhttp_connection_base_new(base, NULL, "127.0.0.1", port);
	rq = evhttp_request_new(done, base);
	evhttp_add_header(evhttp_request_get_output_headers(rq), "Host", "www.example.com");
	evhttp_make_request(c, rq, EVHTTP_REQ_GET, "/");
	event_base_dispatch(base);
	printf("pattern \"www.*\", Host www.example.com: virtual host %d, root server %d\n", hit_vhost, hit_root);
	return hit_vhost == 1 ? 0 : 1;
}
