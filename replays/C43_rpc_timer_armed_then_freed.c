/* replay for K11:evrpc_schedule_request_closure:armed-timer-freed
 * With a pool timeout, evrpc_schedule_request_closure() arms ctx->ev_timeout and only then calls evhttp_make_request(); when that
 * fails (here: the strdup of the uri fails) the error path reports UNSTARTED and frees the wrapper with the timer still pending:
 * the timer later fires on freed memory (heap-use-after-free).
 * (derived from the replay below)
 * original header: replay for K3:evrpc_reply_done:free-without-callback
 * Client side of an RPC with an INPUT hook on the pool: when the reply arrives, evrpc_reply_done() allocates the hook meta data;
 * if that allocation fails it jumps to `error:` and frees the request wrapper WITHOUT invoking the user's completion callback:
 * the RPC never completes.  (The sibling paths report EVRPC_STATUS_ERR_UNSTARTED before freeing.)
 * Build: generate marshalling code with `python3 /repo/event_rpcgen.py regress.rpc regress.gen.h regress.gen.c` (test/regress.rpc). */
#include <event2/event.h>
#include <event2/event_compat.h>
#include <event2/http.h>
#include <event2/http_compat.h>
#include <event2/rpc.h>
#include <event2/rpc_struct.h>
#include <event2/buffer.h>
#include <event2/util.h>
#include <stdio.h>
#include <stdlib.h>
#include <string.h>
#include <assert.h>
#include <arpa/inet.h>
#include "regress.gen.h"

EVRPC_HEADER(Message, msg, kill)
EVRPC_GENERATE(Message, msg, kill)

static struct event_base *base;
static int completions, armed, failing, seen14;
static void *my_malloc(size_t n) { if (failing && n == 14 && ++seen14 == 2) return NULL; return malloc(n); }	/* 24 == sizeof(struct evrpc_hook_meta) on LP64 */
static void *my_realloc(void *p, size_t n) { return realloc(p, n); }
static void my_free(void *p) { free(p); }

static void MessageCb(EVRPC_STRUCT(Message) *rpc, void *arg)
{
	struct kill *k = rpc->reply;
	(void)arg;
	EVTAG_ASSIGN(k, weapon, "dagger");
	EVTAG_ASSIGN(k, action, "wave");
	armed = 1;		/* from now on the client's meta allocation fails */
	failing = 1;
	EVRPC_REQUEST_DONE(rpc);
}
static void GotKillCb(struct evrpc_status *status, struct msg *m, struct kill *k, void *arg)
{
	(void)m; (void)k; (void)arg;
	completions++;
	printf("completion callback: error=%d\n", status->error);
	event_base_loopexit(base, NULL);
}
static int input_hook(void *ctx, struct evhttp_request *req, struct evbuffer *evbuf, void *arg)
{ (void)ctx; (void)req; (void)evbuf; (void)arg; return EVRPC_CONTINUE; }

int main(void)
{
	struct evhttp *http;
	struct evhttp_bound_socket *sock;
	struct evrpc_base *rbase;
	struct evrpc_pool *pool;
	struct evhttp_connection *evcon;
	struct sockaddr_in sin; ev_socklen_t sl = sizeof(sin);
	struct msg *m; struct kill *k;
	struct timeval tv = {2, 0};
	event_set_mem_functions(my_malloc, my_realloc, my_free);
	base = event_init();	/* evhttp_connection_new() uses the global base */
	http = evhttp_new(base);
	sock = evhttp_bind_socket_with_handle(http, "127.0.0.1", 0);
	getsockname(evhttp_bound_socket_get_fd(sock), (struct sockaddr *)&sin, &sl);
	rbase = evrpc_init(http);
	EVRPC_REGISTER(rbase, Message, msg, kill, MessageCb, NULL);
	pool = evrpc_pool_new(NULL);
	evcon = evhttp_connection_new("127.0.0.1", ntohs(sin.sin_port));
	evrpc_pool_add_connection(pool, evcon);
	evrpc_pool_set_timeout(pool, 1);
	m = msg_new(); k = kill_new();
	EVTAG_ASSIGN(m, from_name, "niels");
	EVTAG_ASSIGN(m, to_name, "tester");
	failing = 1;
	EVRPC_MAKE_REQUEST(Message, pool, m, k, GotKillCb, NULL);
	failing = 0;
	event_base_loopexit(base, &tv);
	event_base_dispatch(base);
	failing = 0;
	printf("server answered: %d; completion callbacks delivered: %d\n", armed, completions);
	return !(completions == 1);
}
