/*
 * Side observation (NOT the seeded change): a wake-up that is pending at
 * fork time leaves is_notify_pending set in the child; event_reinit() makes
 * a fresh wake-up fd but never clears the flag, so later cross-thread
 * wake-ups in the child are swallowed.  Exit 0 = child woke up, else hang
 * (killed by alarm) / non-zero.
 */
#include <sys/types.h>
#include <sys/wait.h>
#include <pthread.h>
#include <semaphore.h>
#include <signal.h>
#include <stdio.h>
#include <stdlib.h>
#include <unistd.h>
#include <event2/event.h>
#include <event2/thread.h>

static struct event_base *base;
static struct event *ev_a, *ev_b, *ev_fork, *ev_keep;
static sem_t go, done;
static int in_child;

static void *
t2_parent(void *arg)
{
	(void)arg;
	sem_wait(&go);
	event_active(ev_a, EV_TIMEOUT, 1);	/* loop thread is inside fork_cb */
	sem_post(&done);
	return NULL;
}
static void *
t2_child(void *arg)
{
	(void)arg;
	usleep(300000);			/* let the loop go to sleep */
	event_active(ev_b, EV_TIMEOUT, 1);
	return NULL;
}
static void
b_cb(evutil_socket_t fd, short what, void *arg)
{
	(void)fd; (void)what; (void)arg;
	printf("child: woken up by other thread, ok\n");
	fflush(stdout);
	_exit(0);
}
static void
a_cb(evutil_socket_t fd, short what, void *arg)
{
	(void)fd; (void)what; (void)arg;
	if (in_child) {
		pthread_t t;
		pthread_create(&t, NULL, t2_child, NULL);
	} else {
		event_base_loopbreak(base);
	}
}
static void
fork_cb(evutil_socket_t fd, short what, void *arg)
{
	pid_t pid;
	(void)fd; (void)what; (void)arg;
	if (!getenv("NOPENDING")) {
		sem_post(&go);
		sem_wait(&done);	/* a wake-up is now pending */
	} else {	/* control run: no cross-thread wake-up pending */
		event_active(ev_a, EV_TIMEOUT, 1);
	}
	pid = fork();
	if (pid == 0) {
		in_child = 1;
		alarm(5);
		if (event_reinit(base) != 0)
			_exit(3);
		return;			/* back into the loop */
	} else {
		int st;
		waitpid(pid, &st, 0);
		if (WIFEXITED(st) && WEXITSTATUS(st) == 0) {
			printf("OK\n");
			exit(0);
		}
		printf("FAIL: child status 0x%x (SIGALRM=%d means it never woke up)\n",
		    st, SIGALRM);
		exit(1);
	}
}

int
main(void)
{
	pthread_t t;
	struct timeval tv = { 0, 1000 };
	int p[2];

	alarm(60);
	evthread_use_pthreads();
	sem_init(&go, 0, 0);
	sem_init(&done, 0, 0);
	if (pipe(p) < 0)
		return 2;
	base = event_base_new();
	ev_a = event_new(base, -1, 0, a_cb, NULL);
	ev_b = event_new(base, -1, 0, b_cb, NULL);
	ev_fork = evtimer_new(base, fork_cb, NULL);
	ev_keep = event_new(base, p[0], EV_READ|EV_PERSIST, a_cb, NULL);
	event_add(ev_keep, NULL);
	event_add(ev_fork, &tv);
	pthread_create(&t, NULL, t2_parent, NULL);
	event_base_dispatch(base);
	return 4;
}
