/* replays for C35
 *   a.out term    K4:dnsname_to_labels:unguarded-terminator  -> 1-byte stack-buffer-overflow in evdns_server_request_format_response's buf[64K]
 *   a.out ptr     K4:dnsname_to_labels:compression-position-out-of-range -> a name first emitted at offset >= 0x4000 is later referenced by a
 *                 compression pointer whose 14-bit offset cannot hold it: the response names a different (garbage) owner
 */
#include <event2/event.h>
#include <event2/dns.h>
#include <event2/dns_struct.h>
#include <event2/util.h>
#include <event2/listener.h>
#include <stdio.h>
#include <stdlib.h>
#include <string.h>
#include <unistd.h>
#include <arpa/inet.h>
static struct event_base *base;
static int mode_ptr;
static void server_cb(struct evdns_server_request *req, void *arg)
{
	static char big[65536];
	char label[64];
	(void)arg;
	memset(big, 'd', sizeof(big));
	memset(label, 'L', 62); label[62] = 0;
	if (!mode_ptr) {
		/* header 12 + question "q.test" (8) + 4 = 24; answer 1: pointer name (2) + 10 + D bytes; make the next name's last label end at 65536 */
		evdns_server_request_add_reply(req, EVDNS_ANSWER_SECTION, req->questions[0]->name, 16 /* TXT */, 1, 60, 65473 - 36, 0, big);
		evdns_server_request_add_reply(req, EVDNS_ANSWER_SECTION, label, 16, 1, 60, 1, 0, big);
	} else {
		evdns_server_request_add_reply(req, EVDNS_ANSWER_SECTION, req->questions[0]->name, 16, 1, 60, 20000, 0, big);
		evdns_server_request_add_reply(req, EVDNS_ANSWER_SECTION, "late.example", 16, 1, 60, 1, 0, big);
		evdns_server_request_add_reply(req, EVDNS_ANSWER_SECTION, "late.example", 16, 1, 60, 1, 0, big);
	}
	evdns_server_request_respond(req, 0);
}
int main(int argc, char **argv)
{
	struct sockaddr_in sin; ev_socklen_t sl = sizeof(sin);
	unsigned char q[] = { 0x12,0x34, 0x01,0x00, 0,1, 0,0, 0,0, 0,0, 1,'q',4,'t','e','s','t',0, 0,16, 0,1 };
	struct timeval tv = {1, 0};
	base = event_base_new();
	mode_ptr = argc > 1 && !strcmp(argv[1], "ptr");
	memset(&sin, 0, sizeof(sin)); sin.sin_family = AF_INET; sin.sin_addr.s_addr = htonl(0x7f000001);
	if (!mode_ptr) {
		evutil_socket_t sfd = socket(AF_INET, SOCK_DGRAM, 0), cfd = socket(AF_INET, SOCK_DGRAM, 0);
		evutil_make_socket_nonblocking(sfd);
		bind(sfd, (struct sockaddr *)&sin, sizeof(sin));
		getsockname(sfd, (struct sockaddr *)&sin, &sl);
		evdns_add_server_port_with_base(base, sfd, 0, server_cb, NULL);
		connect(cfd, (struct sockaddr *)&sin, sizeof(sin));
		send(cfd, q, sizeof(q), 0);
		event_base_loopexit(base, &tv);
		event_base_dispatch(base);
		printf("response formatted without writing past the 64 KiB buffer\n");
		return 0;
	} else {
		struct evconnlistener *lev;
		evutil_socket_t cfd = socket(AF_INET, SOCK_STREAM, 0);
		unsigned char lenq[2] = { 0, sizeof(q) }, *resp = malloc(70000);
		int got = 0, n, want = -1;
		lev = evconnlistener_new_bind(base, NULL, NULL, LEV_OPT_CLOSE_ON_FREE | LEV_OPT_REUSEABLE, -1, (struct sockaddr *)&sin, sizeof(sin));
		getsockname(evconnlistener_get_fd(lev), (struct sockaddr *)&sin, &sl);
		evdns_add_server_port_with_listener(base, lev, 0, server_cb, NULL);
		connect(cfd, (struct sockaddr *)&sin, sizeof(sin));
		send(cfd, lenq, 2, 0); send(cfd, q, sizeof(q), 0);
		evutil_make_socket_nonblocking(cfd);
		for (n = 0; n < 200 && (want < 0 || got < want + 2); ++n) {
			int r;
			event_base_loop(base, EVLOOP_NONBLOCK);
			r = recv(cfd, resp + got, 70000 - got, 0);
			if (r > 0) got += r;
			if (got >= 2) want = (resp[0] << 8) | resp[1];
			usleep(5000);
		}
		/* message starts at resp+2: third record's owner name follows record 2 */
		{
			unsigned char *m = resp + 2;
			int off2 = 24 + 2 + 10 + 20000;			/* record 2 owner "late.example" starts here */
			int off3 = off2 + 14 + 10 + 1;			/* record 3 owner */
			int p = ((m[off3] & 0x3f) << 8) | m[off3 + 1];
			printf("response %d bytes; record 2 owner at offset %d (%#x); record 3 owner bytes %02x %02x -> %s offset %d\n",
			    want, off2, off2, m[off3], m[off3 + 1], (m[off3] & 0xc0) == 0xc0 ? "compression pointer to" : "literal label, len/first", p);
			return ((m[off3] & 0xc0) == 0xc0 && p != off2);
		}
	}
}
