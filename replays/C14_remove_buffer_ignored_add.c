/* replay for K12:evbuffer_remove_buffer:unchecked:evbuffer_add
 * evbuffer_remove_buffer() copies the partial last chain with evbuffer_add(dst, ...) and ignores its result: when that
 * allocation fails the bytes are still consumed from src (lost) and counted in the return value. */
#include <event2/buffer.h>
#include <event2/event.h>
#include <stdio.h>
#include <stdlib.h>
#include <string.h>
static int fail_next = 0;
static void *my_malloc(size_t n) { if (fail_next) { fail_next = 0; return NULL; } return malloc(n); }
static void *my_realloc(void *p, size_t n) { return realloc(p, n); }
static void my_free(void *p) { free(p); }
int main(void)
{
	struct evbuffer *src, *dst;
	char data[300];
	int r;
	size_t s0, d0, s1, d1;
	event_set_mem_functions(my_malloc, my_realloc, my_free);
	src = evbuffer_new(); dst = evbuffer_new();
	memset(data, 'a', sizeof(data));
	evbuffer_add(src, data, sizeof(data));
	s0 = evbuffer_get_length(src); d0 = evbuffer_get_length(dst);
	fail_next = 1;			/* dst has no chain: evbuffer_add must allocate and fails */
	r = evbuffer_remove_buffer(src, dst, 100);
	s1 = evbuffer_get_length(src); d1 = evbuffer_get_length(dst);
	printf("remove_buffer returned %d; src %zu -> %zu; dst %zu -> %zu\n", r, s0, s1, d0, d1);
	evbuffer_free(src); evbuffer_free(dst);
	return (s0 - s1) != (d1 - d0);	/* bytes vanished */
}
