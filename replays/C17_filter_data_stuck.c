/* replay (C17): a pass-through filter with a read high watermark of 10 over a socket bufferevent; the peer writes 100 bytes and keeps the
 * connection open; the read callback drains what it gets.  exit 0 = all 100 bytes reach the application */
#include <event2/event.h>
#include <event2/bufferevent.h>
#include <event2/buffer.h>
#include <stdio.h>
#include <string.h>
#include <unistd.h>
#include <sys/socket.h>
static size_t delivered, at_eof; static int eofs;
static enum bufferevent_filter_result pass(struct evbuffer *src, struct evbuffer *dst, ev_ssize_t lim, enum bufferevent_flush_mode m, void *ctx)
{
	(void)m; (void)ctx;
	if (!evbuffer_get_length(src)) return BEV_NEED_MORE;
	evbuffer_remove_buffer(src, dst, lim < 0 ? evbuffer_get_length(src) : (size_t)lim);
	return BEV_OK;
}
static void readcb(struct bufferevent *b, void *arg)
{
	struct evbuffer *in = bufferevent_get_input(b); (void)arg;
	delivered += evbuffer_get_length(in);
	evbuffer_drain(in, evbuffer_get_length(in));
}
static void eventcb(struct bufferevent *b, short what, void *arg)
{
	(void)arg; (void)b;
	if (what & BEV_EVENT_EOF) { eofs++; at_eof = delivered; }
}
int main(void)
{
	int fd[2]; char data[100];
	struct event_base *base = event_base_new();
	struct bufferevent *s, *f;
	memset(data, 'x', sizeof data);
	socketpair(AF_UNIX, SOCK_STREAM, 0, fd);
	evutil_make_socket_nonblocking(fd[0]);
	s = bufferevent_socket_new(base, fd[0], 0);
	f = bufferevent_filter_new(s, pass, pass, 0, NULL, NULL);
	bufferevent_setcb(f, readcb, NULL, eventcb, NULL);
	bufferevent_setwatermark(f, EV_READ, 0, 10);
	bufferevent_enable(f, EV_READ);
	if (write(fd[1], data, sizeof data) != 100) return 2;
	/* the peer keeps the connection open */
	{ int i; for (i = 0; i < 20; i++) event_base_loop(base, EVLOOP_ONCE | EVLOOP_NONBLOCK); }
	printf("EOF events %d; bytes delivered before EOF %zu of 100\n", eofs, at_eof);
	{ int i; for (i = 0; i < 20; i++) event_base_loop(base, EVLOOP_NONBLOCK); }
	printf("bytes delivered in the end %zu of 100\n", delivered);
	return delivered == 100 ? 0 : 1;
}
