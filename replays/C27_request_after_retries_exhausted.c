/* replay for K6:evhttp_connection_cb_cleanup:retry-state (C27)
 * evhttp_make_request() only queues a request while evcon->retry_cnt != 0 ("we do not want to conflict with retry_ev") and relies on the
 * retry timer to connect and dispatch it.  When the retries of a connection were exhausted, evhttp_connection_cb_cleanup() completed the
 * queued requests but left retry_cnt at retry_max with no timer pending: every later request on that connection was queued forever and
 * its callback never ran.
 * build: cc -g -I/repo/include -I<build>/include C27_request_after_retries_exhausted.c <build>/lib/libevent.a -o t && ./t
 * exit 0 = the second request completes (with a failure: nothing listens); 1 = it never completes. */
#include <event2/event.h>
#include <event2/http.h>
#include <stdio.h>
#include <string.h>
#include <unistd.h>
#include <arpa/inet.h>
static struct event_base *base;
static struct evhttp_connection *evcon;
static int a_done, b_done;
static void b_cb(struct evhttp_request *req, void *arg) { (void)arg; b_done++; printf("B completed (%s)\n", req ? "response" : "failure"); event_base_loopbreak(base); }
static void a_cb(struct evhttp_request *req, void *arg)
{
	struct evhttp_request *b;
	(void)arg; a_done++;
	printf("A completed (%s) after the retries were used up\n", req ? "response" : "failure");
	b = evhttp_request_new(b_cb, NULL);
	if (evhttp_make_request(evcon, b, EVHTTP_REQ_GET, "/b") != 0) { printf("make_request(B) failed synchronously\n"); b_done++; event_base_loopbreak(base); }
}
static void deadline(evutil_socket_t fd, short w, void *a) { (void)fd; (void)w; (void)a; event_base_loopbreak(base); }
int main(void)
{
	struct sockaddr_in sin; socklen_t sl = sizeof(sin);
	struct timeval tv = {0, 10000}, dl = {3, 0};
	int s = socket(AF_INET, SOCK_STREAM, 0), port;
	memset(&sin, 0, sizeof(sin)); sin.sin_family = AF_INET; sin.sin_addr.s_addr = htonl(INADDR_LOOPBACK);
	bind(s, (struct sockaddr *)&sin, sizeof(sin)); getsockname(s, (struct sockaddr *)&sin, &sl); port = ntohs(sin.sin_port); close(s);   /* nothing listens here */
	base = event_base_new();
	evcon = evhttp_connection_base_new(base, NULL, "127.0.0.1", port);
	evhttp_connection_set_retries(evcon, 1);
	evhttp_connection_set_initial_retry_tv(evcon, &tv);
	evhttp_make_request(evcon, evhttp_request_new(a_cb, NULL), EVHTTP_REQ_GET, "/a");
	event_base_once(base, -1, EV_TIMEOUT, deadline, NULL, &dl);
	event_base_dispatch(base);
	if (a_done != 1) { printf("A completed %d times\n", a_done); return 1; }
	if (b_done != 1) { printf("HANG: request B made after the retries were exhausted never completed (callbacks: %d)\n", b_done); return 1; }
	printf("ok\n");
	return 0;
}
