/* replay for K6:evhttp_parse_headers_:whitespace-before-colon / name-not-token (C23)
 * RFC 9112 5.1: "No whitespace is allowed between the field name and colon. ... A server MUST reject, with a response status
 * code of 400 (Bad Request), any received request message that contains whitespace between a header field name and colon."
 * libevent split the line at the first ':' and stored the name as it was: "Content-Length : 5" became a field called
 * "Content-Length " that the framing code does not find, so the request was taken to have no body and its body bytes were
 * parsed as the next pipelined request (request smuggling when a front end honours the field).
 * build: cc -g -I/repo/include -I<build>/include C23_field_name_whitespace.c <build>/lib/libevent.a -o t && ./t
 * exit 0 = every case handled as the RFC says; 1 = a malformed field line was accepted. */
#include <event2/event.h>
#include <event2/http.h>
#include <event2/buffer.h>
#include <stdio.h>
#include <string.h>
#include <unistd.h>
#include <arpa/inet.h>
static struct event_base *base;
static char seen[2048];
static void gen(struct evhttp_request *req, void *arg)
{
	struct evbuffer *in = evhttp_request_get_input_buffer(req);
	char body[256]; int n = evbuffer_copyout(in, body, sizeof(body) - 1);
	(void)arg; if (n < 0) n = 0; body[n] = 0;
	snprintf(seen + strlen(seen), sizeof(seen) - strlen(seen), "[%s body=%s]", evhttp_request_get_uri(req), body);
	evhttp_send_reply(req, 200, "OK", NULL);
}
static void stop(evutil_socket_t fd, short w, void *a) { (void)fd; (void)w; (void)a; event_base_loopbreak(base); }
static int run(const char *name, const char *wire, const char *must_not, const char *must)
{
	struct evhttp *http = evhttp_new(base);
	struct evhttp_bound_socket *b = evhttp_bind_socket_with_handle(http, "127.0.0.1", 0);
	struct sockaddr_in sin; ev_socklen_t sl = sizeof(sin);
	struct timeval tv = {0, 300000};
	int fd, bad = 0;
	seen[0] = 0;
	evhttp_set_gencb(http, gen, NULL);
	getsockname(evhttp_bound_socket_get_fd(b), (struct sockaddr *)&sin, &sl);
	fd = socket(AF_INET, SOCK_STREAM, 0);
	connect(fd, (struct sockaddr *)&sin, sizeof(sin));
	if (write(fd, wire, strlen(wire)) < 0) return 1;
	event_base_once(base, -1, EV_TIMEOUT, stop, NULL, &tv);
	event_base_dispatch(base);
	if (must_not && strstr(seen, must_not)) bad = 1;
	if (must && !strstr(seen, must)) bad = 1;
	printf("%-34s callbacks: %-50s %s\n", name, seen[0] ? seen : "(none)", bad ? "WRONG" : "ok");
	close(fd); evhttp_free(http);
	return bad;
}
int main(void)
{
	int bad = 0;
	base = event_base_new();
	bad |= run("Content-Length : 5 (space)", "POST /a HTTP/1.1\r\nHost: x\r\nContent-Length : 34\r\n\r\nGET /smuggled HTTP/1.1\r\nHost: x\r\n\r\n", "/", NULL);
	bad |= run("Content-Length<TAB>: 5", "POST /a HTTP/1.1\r\nHost: x\r\nContent-Length\t: 5\r\n\r\nhello", "/a", NULL);
	bad |= run("name with a space inside", "GET /a HTTP/1.1\r\nHost: x\r\nX Y: 1\r\n\r\n", "/a", NULL);
	bad |= run("name with a delimiter", "GET /a HTTP/1.1\r\nHost: x\r\nX(Y): 1\r\n\r\n", "/a", NULL);
	bad |= run("well-formed (control)", "POST /a HTTP/1.1\r\nHost: x\r\nContent-Length: 5\r\nX-Tok.en_1~: v\r\n\r\nhello", NULL, "[/a body=hello]");
	return bad;
}
