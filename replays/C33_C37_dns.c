/* replays for
 *   K11:reply_parse:reply.cname:overwritten-while-owning   (C33)  usage: a.out cname   -> LeakSanitizer reports the first strdup
 *   K12:reply_parse:unchecked:event_mm_malloc_                 (C33)  usage: a.out nomem   -> SEGV writing through the NULL reply buffer
 *   K4:request_parse:dead-guard:_OP_MASK                   (C37)  usage: a.out opcode  -> user callback runs for opcode 2 instead of NOTIMPL
 */
#include <event2/event.h>
#include <event2/dns.h>
#include <event2/dns_struct.h>
#include <event2/util.h>
#include <stdio.h>
#include <string.h>
#include <unistd.h>
#include <arpa/inet.h>
#include <stdlib.h>
static struct event_base *base;
static int fail_all;
static void *my_malloc(size_t n) { if (fail_all && n == 255) return NULL; return malloc(n); }	/* 255 == EVDNS_NAME_MAX: the reply buffer of reply_parse */
static void *my_realloc(void *p, size_t n) { return realloc(p, n); }
static void my_free(void *p) { free(p); }
static int user_cb_ran, got_reply_rcode = -1;
static int two_cnames;
static void server_cb(struct evdns_server_request *req, void *arg)
{
	(void)arg;
	user_cb_ran++;
	if (two_cnames && req->nquestions) {
		ev_uint32_t a = htonl(0x01020304);
		evdns_server_request_add_cname_reply(req, req->questions[0]->name, "c1.test", 60);
		evdns_server_request_add_cname_reply(req, "c1.test", "c2.test", 60);
		evdns_server_request_add_a_reply(req, "c2.test", 1, &a, 60);
	}
	evdns_server_request_respond(req, 0);
	if (two_cnames == 2)
		fail_all = 1;	/* "usage: a.out nomem": every allocation after the answer was sent fails (reply_parse's buffer) */
}
static void client_cb(int result, char type, int count, int ttl, void *addresses, void *arg)
{
	(void)ttl; (void)addresses; (void)arg;
	printf("client callback: result=%d type=%d count=%d\n", result, type, count);
	if (type != DNS_CNAME) event_base_loopexit(base, NULL);
}
static void raw_read(evutil_socket_t fd, short what, void *arg)
{
	unsigned char buf[512];
	int n = recv(fd, buf, sizeof(buf), 0);
	(void)what; (void)arg;
	if (n >= 4) got_reply_rcode = buf[3] & 0x0f;
	event_base_loopexit(base, NULL);
}
int main(int argc, char **argv)
{
	struct sockaddr_in sin; ev_socklen_t sl = sizeof(sin);
	evutil_socket_t sfd;
	struct evdns_server_port *port;
	struct timeval tv = {2, 0};
	event_set_mem_functions(my_malloc, my_realloc, my_free);
	base = event_base_new();
	sfd = socket(AF_INET, SOCK_DGRAM, 0);
	evutil_make_socket_nonblocking(sfd);
	memset(&sin, 0, sizeof(sin)); sin.sin_family = AF_INET; sin.sin_addr.s_addr = htonl(0x7f000001);
	bind(sfd, (struct sockaddr *)&sin, sizeof(sin));
	getsockname(sfd, (struct sockaddr *)&sin, &sl);
	port = evdns_add_server_port_with_base(base, sfd, 0, server_cb, NULL);
	event_base_loopexit(base, &tv);
	if (argc > 1 && !strcmp(argv[1], "opcode")) {
		/* header: id 0x1234, flags: opcode 2 (STATUS) => 0x1000, 1 question; question: "a" A IN */
		unsigned char q[] = { 0x12,0x34, 0x10,0x00, 0,1, 0,0, 0,0, 0,0, 1,'a',0, 0,1, 0,1 };
		evutil_socket_t cfd = socket(AF_INET, SOCK_DGRAM, 0);
		struct event *ev;
		connect(cfd, (struct sockaddr *)&sin, sizeof(sin));
		evutil_make_socket_nonblocking(cfd);
		ev = event_new(base, cfd, EV_READ, raw_read, NULL);
		event_add(ev, NULL);
		send(cfd, q, sizeof(q), 0);
		event_base_dispatch(base);
		printf("opcode 2 query: user callback ran %d time(s), reply rcode=%d (NOTIMPL is 4)\n", user_cb_ran, got_reply_rcode);
		return user_cb_ran != 0 || got_reply_rcode != 4;
	} else {
		struct evdns_base *dns = evdns_base_new(base, 0);
		two_cnames = (argc > 1 && !strcmp(argv[1], "nomem")) ? 2 : 1;
		evdns_base_nameserver_sockaddr_add(dns, (struct sockaddr *)&sin, sizeof(sin), 0);
		evdns_base_resolve_ipv4(dns, "host.test", DNS_QUERY_NO_SEARCH | DNS_CNAME_CALLBACK, client_cb, NULL);
		event_base_dispatch(base);
		evdns_base_free(dns, 0);
		evdns_close_server_port(port);
		event_base_free(base);
		return 0;	/* LeakSanitizer decides */
	}
}
