/* replay for K6:evhttp_uri_parse_with_flags:component:path (C28): the form documented for EVHTTP_URI_UNIX_SOCKET, "http://unix:/run/control.sock:/controller".
 * end_of_authority() stopped at the first '/' of the socket path, parse_authority() then cut the string at the closing colon behind that point, and the parser
 * went on from the first '/': path = "/run/control.sock", and "/controller", the query and the fragment were lost; evhttp_uri_join wrote another URI.
 * build: cc -g -I/repo/include -I<build>/include C28_unix_socket_uri.c <build>/lib/libevent.a -o t && ./t ; exit 0 = components and round trip right */
#include <event2/http.h>
#include <stdio.h>
#include <string.h>
int main(void)
{
	char buf[256];
	const char *s = "http://unix:/run/control.sock:/controller?q#f";
	struct evhttp_uri *u = evhttp_uri_parse_with_flags(s, EVHTTP_URI_UNIX_SOCKET);
	if (!u) { printf("not parsed\n"); return 1; }
	printf("unixsocket=%s path=%s query=%s fragment=%s\n", evhttp_uri_get_unixsocket(u), evhttp_uri_get_path(u), evhttp_uri_get_query(u), evhttp_uri_get_fragment(u));
	if (!evhttp_uri_join(u, buf, sizeof buf)) return 1;
	printf("join=%s\n", buf);
	return (!strcmp(evhttp_uri_get_path(u), "/controller") && evhttp_uri_get_query(u) && !strcmp(buf, s)) ? 0 : 1;
}
