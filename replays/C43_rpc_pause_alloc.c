/* replay for K12:evrpc_reply_done:unchecked:evrpc_pause_request
 * A pool INPUT hook returns EVRPC_PAUSE; evrpc_reply_done() calls evrpc_pause_request() and returns without looking at its result.
 * When the small allocation inside it fails the request is not parked anywhere: evrpc_resume_request() finds nothing and the RPC never
 * completes (its completion callback runs zero times).
 * (derived from the replay below; original header follows)
 * replay for K3:evrpc_reply_done:free-without-callback
 * Client side of an RPC with an INPUT hook on the pool: when the reply arrives, evrpc_reply_done() allocates the hook meta data;
 * if that allocation fails it jumps to `error:` and frees the request wrapper WITHOUT invoking the user's completion callback:
 * the RPC never completes.  (The sibling paths report EVRPC_STATUS_ERR_UNSTARTED before freeing.)
 * Build: generate marshalling code with `python3 /repo/event_rpcgen.py regress.rpc regress.gen.h regress.gen.c` (test/regress.rpc). */
#include <event2/event.h>
#include <event2/event_compat.h>
#include <event2/http.h>
#include <event2/http_compat.h>
#include <event2/rpc.h>
#include <event2/rpc_struct.h>
#include <event2/buffer.h>
#include <event2/util.h>
#include <stdio.h>
#include <stdlib.h>
#include <string.h>
#include <assert.h>
#include <arpa/inet.h>
#include "regress.gen.h"

EVRPC_HEADER(Message, msg, kill)
EVRPC_GENERATE(Message, msg, kill)

static struct event_base *base;
static int completions, armed, failing;
static void *my_malloc(size_t n) { if (failing && n == 32) return NULL; return malloc(n); }	/* 24 == sizeof(struct evrpc_hook_meta) on LP64 */
static void *my_realloc(void *p, size_t n) { return realloc(p, n); }
static void my_free(void *p) { free(p); }

static void MessageCb(EVRPC_STRUCT(Message) *rpc, void *arg)
{
	struct kill *k = rpc->reply;
	(void)arg;
	EVTAG_ASSIGN(k, weapon, "dagger");
	EVTAG_ASSIGN(k, action, "wave");
	armed = 1;
	EVRPC_REQUEST_DONE(rpc);
}
static void GotKillCb(struct evrpc_status *status, struct msg *m, struct kill *k, void *arg)
{
	(void)m; (void)k; (void)arg;
	completions++;
	printf("completion callback: error=%d\n", status->error);
	event_base_loopexit(base, NULL);
}
static void *paused_ctx; static struct evrpc_pool *the_pool;
static void resume_cb(evutil_socket_t fd, short what, void *arg)
{ (void)fd; (void)what; (void)arg; failing = 0; printf("resume: %d\n", evrpc_resume_request(the_pool, paused_ctx, EVRPC_CONTINUE)); }
static int input_hook(void *ctx, struct evhttp_request *req, struct evbuffer *evbuf, void *arg)
{ struct timeval tv = {0, 100000}; (void)req; (void)evbuf; (void)arg; paused_ctx = ctx; event_base_once(base, -1, EV_TIMEOUT, resume_cb, NULL, &tv); failing = getenv("NOFAIL") ? 0 : 1; /* the next 32-byte allocation is the pause record */ return EVRPC_PAUSE; }

int main(void)
{
	struct evhttp *http;
	struct evhttp_bound_socket *sock;
	struct evrpc_base *rbase;
	struct evrpc_pool *pool;
	struct evhttp_connection *evcon;
	struct sockaddr_in sin; ev_socklen_t sl = sizeof(sin);
	struct msg *m; struct kill *k;
	struct timeval tv = {2, 0};
	event_set_mem_functions(my_malloc, my_realloc, my_free);
	base = event_init();	/* evhttp_connection_new() uses the global base */
	http = evhttp_new(base);
	sock = evhttp_bind_socket_with_handle(http, "127.0.0.1", 0);
	getsockname(evhttp_bound_socket_get_fd(sock), (struct sockaddr *)&sin, &sl);
	rbase = evrpc_init(http);
	EVRPC_REGISTER(rbase, Message, msg, kill, MessageCb, NULL);
	pool = evrpc_pool_new(NULL);
	evcon = evhttp_connection_new("127.0.0.1", ntohs(sin.sin_port));
	evrpc_pool_add_connection(pool, evcon);
	the_pool = pool;
	evrpc_add_hook(pool, EVRPC_INPUT, input_hook, NULL);
	m = msg_new(); k = kill_new();
	EVTAG_ASSIGN(m, from_name, "niels");
	EVTAG_ASSIGN(m, to_name, "tester");
	EVRPC_MAKE_REQUEST(Message, pool, m, k, GotKillCb, NULL);
	event_base_loopexit(base, &tv);
	event_base_dispatch(base);
	failing = 0;
	printf("server answered: %d; completion callbacks delivered: %d\n", armed, completions);
	return !(armed && completions == 1);
}
