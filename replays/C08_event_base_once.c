/* replay for K1:event_base_once:event_base.th_base_lock:returns-disagree
 * event_base_once() returns -1 with th_base_lock still held when event_add_nolock_ fails.
 * A regular file cannot be added to epoll (EPERM), so event_add fails.  With lock debugging on, the next
 * API call that takes the (non-recursive) base lock aborts in the debug lock ("count == 1" assertion);
 * without debugging it would self-deadlock.  Expected: exit 0 on a repaired tree.
 * cc -fsanitize=address -I/repo/include -I/tmp/replay/b/include C08_event_base_once.c /tmp/replay/b/lib/libevent_core.a /tmp/replay/b/lib/libevent_pthreads.a -lpthread */
#include <event2/event.h>
#include <event2/thread.h>
#include <stdio.h>
#include <fcntl.h>
#include <unistd.h>
static void cb(evutil_socket_t fd, short what, void *arg) { (void)fd; (void)what; (void)arg; }
int main(void)
{
	struct event_config *cfg;
	struct event_base *base;
	int fd, r;
	evthread_use_pthreads();
	evthread_enable_lock_debugging();
	cfg = event_config_new();
	event_config_avoid_method(cfg, "poll");
	event_config_avoid_method(cfg, "select");
	base = event_base_new_with_config(cfg);
	event_config_free(cfg);
	fd = open("/etc/hostname", O_RDONLY);
	r = event_base_once(base, fd, EV_READ, cb, NULL, NULL);
	printf("event_base_once on a regular file with %s: %d\n", event_base_get_method(base), r);
	/* takes th_base_lock: aborts (debug lock) or deadlocks if the failed call left it held */
	event_base_loopbreak(base);
	printf("base lock was free after the failed call\n");
	event_base_free(base);
	close(fd);
	return 0;
}
