/* replay for K6:event_signal_closure:batch-pointer-left-dangling (C07 / C10)
 * event_signal_closure() publishes the address of its local `ncalls` in ev->ev_pncalls so that event_del() from inside the callback can stop the
 * batch (*ev->ev_pncalls = 0).  After such a delete the closure returns with ev->ev_pncalls still pointing at its dead stack slot and ev_ncalls
 * non-zero; the next event_del()/event_free() of that event writes a zero short through the dangling pointer - into whatever frame lives there now.
 * build: cc -g -O0 -I/repo/include -I<build>/include C07_dangling_batch_pointer.c <build>/lib/libevent.a -o t && ./t
 * exit 0 = no stray write; 1 = a later event_del() modified memory of an unrelated stack frame. */
#include <event2/event.h>
#include <event2/event_struct.h>
#include <signal.h>
#include <stdio.h>
#include <string.h>
static struct event sig;
static int calls;
static void cb(evutil_socket_t fd, short what, void *arg) { (void)fd; (void)what; (void)arg; if (++calls == 1) event_del(&sig); }
static int damaged;
static void probe(int depth)
{
	volatile unsigned char pad[512];
	int i;
	memset((void *)pad, 0x55, sizeof(pad));
	if (depth) probe(depth - 1); else event_del(&sig);          /* an ordinary, legal second delete */
	for (i = 0; i < (int)sizeof(pad); i++) if (pad[i] != 0x55) { damaged++; }
}
int main(void)
{
	struct event_base *base = event_base_new();
	event_assign(&sig, base, SIGUSR1, EV_SIGNAL | EV_PERSIST, cb, NULL);
	event_add(&sig, NULL);
	event_active(&sig, EV_SIGNAL, 3);                          /* a batch of three deliveries */
	event_base_loop(base, EVLOOP_NONBLOCK);
	printf("callback ran %d time(s); after the loop ev_ncalls=%d ev_pncalls=%p\n", calls, sig.ev_.ev_signal.ev_ncalls, (void *)sig.ev_.ev_signal.ev_pncalls);
	probe(40);
	if (damaged) { printf("STRAY WRITE: a later event_del() changed %d byte(s) in an unrelated stack frame\n", damaged); return 1; }
	if (sig.ev_.ev_signal.ev_pncalls != NULL) { printf("ev_pncalls still points into the closure's dead frame (no live frame happened to be there this time)\n"); return 1; }
	printf("ok\n");
	return 0;
}
