/* replay for K6:ws_evhttp_read_cb:fragmentation (C31)
 * RFC 6455 5.4: a fragmented message is a first frame with FIN clear and a data opcode, continuation frames with opcode 0, and a last frame with
 * FIN set and opcode 0; control frames may be interleaved; a new data frame before the message is finished is a protocol error.
 * libevent delivered a fragmented message only when the *last* frame repeated the data opcode (which the RFC forbids) and closed the connection
 * on the RFC's own form; it also went on delivering frames that followed a Close frame in the same read.
 * build: cc -g -I/repo/include -I<build>/include C31_ws_fragmentation.c <build>/lib/libevent.a -o t && ./t
 * exit 0 = every frame sequence is decoded as the RFC says; 1 = a sequence was not. */
#include <event2/event.h>
#include <event2/http.h>
#include <event2/ws.h>
#include <event2/buffer.h>
#include <stdio.h>
#include <string.h>
#include <stdlib.h>
#include <unistd.h>
#include <arpa/inet.h>
static struct event_base *base;
static char got[1024];
static void on_msg(struct evws_connection *ws, int type, const unsigned char *data, size_t len, void *arg)
{ (void)ws; (void)arg; snprintf(got + strlen(got), sizeof(got) - strlen(got), "[%d:%.*s]", type, (int)len, (const char *)data); }
static void on_close(struct evws_connection *ws, void *arg) { (void)ws; (void)arg; strncat(got, "[closed]", sizeof(got) - strlen(got) - 1); }
static void on_ws(struct evhttp_request *req, void *arg)
{
	struct evws_connection *ws = evws_new_session(req, on_msg, NULL, 0);
	(void)arg;
	if (ws) evws_connection_set_closecb(ws, on_close, NULL);
}
static void stop(evutil_socket_t fd, short w, void *a) { (void)fd; (void)w; (void)a; event_base_loopbreak(base); }
static size_t frame(unsigned char *out, int fin, int op, const char *payload)
{
	size_t n = strlen(payload), i; const unsigned char mask[4] = {1, 2, 3, 4};
	out[0] = (unsigned char)((fin << 7) | op); out[1] = (unsigned char)(0x80 | n); memcpy(out + 2, mask, 4);
	for (i = 0; i < n; i++) out[6 + i] = (unsigned char)(payload[i] ^ mask[i % 4]);
	return 6 + n;
}
struct fr { int fin, op; const char *p; };
static int run(const char *name, const struct fr *f, int nf, const char *want)
{
	struct evhttp *http = evhttp_new(base);
	struct evhttp_bound_socket *b = evhttp_bind_socket_with_handle(http, "127.0.0.1", 0);
	struct sockaddr_in sin; ev_socklen_t sl = sizeof(sin);
	struct timeval tv = {0, 300000};
	unsigned char wire[1024]; size_t wl = 0; char resp[512]; int fd, i, bad;
	static const char hs[] = "GET /ws HTTP/1.1\r\nHost: x\r\nUpgrade: websocket\r\nConnection: Upgrade\r\nSec-WebSocket-Key: dGhlIHNhbXBsZSBub25jZQ==\r\nSec-WebSocket-Version: 13\r\n\r\n";
	got[0] = 0;
	evhttp_set_cb(http, "/ws", on_ws, NULL);
	getsockname(evhttp_bound_socket_get_fd(b), (struct sockaddr *)&sin, &sl);
	fd = socket(AF_INET, SOCK_STREAM, 0);
	connect(fd, (struct sockaddr *)&sin, sizeof(sin));
	if (write(fd, hs, sizeof(hs) - 1) < 0) return 1;
	event_base_once(base, -1, EV_TIMEOUT, stop, NULL, &tv); event_base_dispatch(base);      /* handshake */
	if (read(fd, resp, sizeof(resp)) <= 0) { printf("%s: no handshake response\n", name); return 1; }
	for (i = 0; i < nf; i++) wl += frame(wire + wl, f[i].fin, f[i].op, f[i].p);
	if (write(fd, wire, wl) < 0) return 1;                                                        /* all frames in one segment */
	event_base_once(base, -1, EV_TIMEOUT, stop, NULL, &tv); event_base_dispatch(base);
	bad = strcmp(got, want) != 0;
	printf("%-46s delivered %-28s expected %-22s %s\n", name, got[0] ? got : "(nothing)", want, bad ? "WRONG" : "ok");
	close(fd); evhttp_free(http);
	return bad;
}
int main(void)
{
	int bad = 0;
	static const struct fr single[] = {{1, 1, "Hello"}};
	static const struct fr frag[] = {{0, 1, "Hel"}, {1, 0, "lo"}};
	static const struct fr frag3[] = {{0, 2, "a"}, {0, 0, "b"}, {1, 0, "c"}};
	static const struct fr fragping[] = {{0, 1, "Hel"}, {1, 9, "p"}, {1, 0, "lo"}};
	static const struct fr closetext[] = {{1, 8, ""}, {1, 1, "late"}};
	static const struct fr newdata[] = {{0, 1, "Hel"}, {1, 1, "lo"}};
	static const struct fr contfirst[] = {{1, 0, "x"}};
	base = event_base_new();
	bad |= run("single text frame (control)", single, 1, "[1:Hello]");
	bad |= run("fragmented: TEXT, CONT(fin)", frag, 2, "[1:Hello]");
	bad |= run("fragmented: BINARY, CONT, CONT(fin)", frag3, 3, "[2:abc]");
	bad |= run("ping inside a fragmented message", fragping, 3, "[1:Hello]");
	bad |= run("text frame after a close frame", closetext, 2, "[closed]");
	bad |= run("new data frame inside a fragmented message", newdata, 2, "[closed]");
	bad |= run("continuation without a first frame", contfirst, 1, "[closed]");
	return bad;
}
