/* replay for K6:evhttp_handle_chunked_read:chunk-extension-rejected (C23, and C24 through the shared reader)
 * RFC 9112 7.1.1: "A recipient MUST ignore unrecognized chunk extensions."  libevent accepted only NUL or SP after the
 * chunk size, so "5;name=value" failed the whole message with 400 although it is valid.
 * build: cc -g -I/repo/include -I<build>/include C23_chunk_extension.c <build>/lib/libevent.a -o t && ./t
 * exit 0 = every case framed as the RFC says; 1 = a case was mis-framed. */
#include <event2/event.h>
#include <event2/http.h>
#include <event2/buffer.h>
#include <event2/bufferevent.h>
#include <stdio.h>
#include <string.h>
#include <stdlib.h>
#include <unistd.h>
#include <arpa/inet.h>
static struct event_base *base;
static char seen[2048];
static void gen(struct evhttp_request *req, void *arg)
{
	struct evbuffer *in = evhttp_request_get_input_buffer(req);
	char body[256]; int n = evbuffer_copyout(in, body, sizeof(body) - 1);
	(void)arg; if (n < 0) n = 0; body[n] = 0;
	snprintf(seen + strlen(seen), sizeof(seen) - strlen(seen), "[%s body=%s]", evhttp_request_get_uri(req), body);
	evhttp_send_reply(req, 200, "OK", NULL);
}
static void stop(evutil_socket_t fd, short w, void *a) { (void)fd; (void)w; (void)a; event_base_loopbreak(base); }
static int run(const char *name, const char *wire, const char *must_not, const char *must)
{
	struct evhttp *http = evhttp_new(base);
	struct evhttp_bound_socket *b = evhttp_bind_socket_with_handle(http, "127.0.0.1", 0);
	struct sockaddr_in sin; ev_socklen_t sl = sizeof(sin);
	struct timeval tv = {0, 300000};
	int fd, bad = 0;
	seen[0] = 0;
	evhttp_set_gencb(http, gen, NULL);
	getsockname(evhttp_bound_socket_get_fd(b), (struct sockaddr *)&sin, &sl);
	fd = socket(AF_INET, SOCK_STREAM, 0);
	connect(fd, (struct sockaddr *)&sin, sizeof(sin));
	if (write(fd, wire, strlen(wire)) < 0) return 1;
	event_base_once(base, -1, EV_TIMEOUT, stop, NULL, &tv);
	event_base_dispatch(base);
	if (must_not && strstr(seen, must_not)) bad = 1;
	if (must && !strstr(seen, must)) bad = 1;
	printf("%-34s callbacks: %-50s %s\n", name, seen[0] ? seen : "(none)", bad ? "MIS-FRAMED" : "ok");
	close(fd); evhttp_free(http);
	return bad;
}
int main(void)
{
	int bad = 0;
	base = event_base_new();
	bad |= run("chunk extension", "POST /a HTTP/1.1\r\nHost: x\r\nTransfer-Encoding: chunked\r\n\r\n5;name=value\r\nhello\r\n0\r\n\r\n", NULL, "[/a body=hello]");
	bad |= run("chunk extension after BWS", "POST /a HTTP/1.1\r\nHost: x\r\nTransfer-Encoding: chunked\r\n\r\n5 ;name\r\nhello\r\n0;x\r\n\r\n", NULL, "[/a body=hello]");
	bad |= run("no extension (control)", "POST /a HTTP/1.1\r\nHost: x\r\nTransfer-Encoding: chunked\r\n\r\n5\r\nhello\r\n0\r\n\r\n", NULL, "[/a body=hello]");
	bad |= run("junk after size (control)", "POST /a HTTP/1.1\r\nHost: x\r\nTransfer-Encoding: chunked\r\n\r\n5x\r\nhello\r\n0\r\n\r\n", "/a", NULL);
	return bad;
}
