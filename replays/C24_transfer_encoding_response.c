/* replay for K6:evhttp_get_body:framing (response side, C24)
 * A response with "Transfer-Encoding: gzip, chunked" is chunked (RFC 9112 6.3 rule 4); one whose final coding is not chunked is
 * delimited by connection close whatever Content-Length says; "Content-Length: +5" is invalid.
 * Known finding (not repaired): no Content-Length, no Transfer-Encoding and "Connection: keep-alive" -> libevent assumes an empty body
 * (RFC: read until close).
 * build: cc -g -I/repo/include -I<build>/include C24_transfer_encoding_response.c <build>/lib/libevent.a -o t && ./t [keepalive] */
#include <event2/event.h>
#include <event2/http.h>
#include <event2/buffer.h>
#include <event2/bufferevent.h>
#include <event2/listener.h>
#include <stdio.h>
#include <string.h>
#include <stdlib.h>
#include <unistd.h>
#include <arpa/inet.h>
static struct event_base *base;
static const char *reply;
static char got[512]; static int status;
static int replied;
static void srv_rd(struct bufferevent *bev, void *arg)
{
	char tmp[1024]; (void)arg;
	while (bufferevent_read(bev, tmp, sizeof(tmp)) > 0) ;
	bufferevent_write(bev, reply, strlen(reply));
	replied = 1;
}
static void srv_wr(struct bufferevent *bev, void *arg) { (void)arg; if (replied && !strstr(reply, "keep-alive")) bufferevent_free(bev); }
static void acc(struct evconnlistener *l, evutil_socket_t fd, struct sockaddr *sa, int slen, void *arg)
{
	struct bufferevent *bev = bufferevent_socket_new(base, fd, BEV_OPT_CLOSE_ON_FREE);
	(void)l; (void)sa; (void)slen; (void)arg;
	bufferevent_setcb(bev, srv_rd, srv_wr, NULL, NULL);
	bufferevent_enable(bev, EV_READ | EV_WRITE);
}
static void done(struct evhttp_request *req, void *arg)
{
	(void)arg;
	if (!req) { status = -1; strcpy(got, "(failed)"); }
	else { int n = evbuffer_copyout(evhttp_request_get_input_buffer(req), got, sizeof(got) - 1); if (n < 0) n = 0; got[n] = 0; status = evhttp_request_get_response_code(req); }
	event_base_loopbreak(base);
}
static void stop(evutil_socket_t fd, short w, void *a) { (void)fd; (void)w; (void)a; event_base_loopbreak(base); }
static int run(const char *name, const char *wire, const char *want_body, int want_fail)
{
	struct sockaddr_in sin; ev_socklen_t sl = sizeof(sin);
	struct evconnlistener *lev; struct evhttp_connection *evcon; struct evhttp_request *req;
	struct timeval tv = {1, 0}; int bad;
	reply = wire; got[0] = 0; status = 0; replied = 0;
	memset(&sin, 0, sizeof(sin)); sin.sin_family = AF_INET; sin.sin_addr.s_addr = htonl(0x7f000001);
	lev = evconnlistener_new_bind(base, acc, NULL, LEV_OPT_CLOSE_ON_FREE | LEV_OPT_REUSEABLE, -1, (struct sockaddr *)&sin, sizeof(sin));
	getsockname(evconnlistener_get_fd(lev), (struct sockaddr *)&sin, &sl);
	evcon = evhttp_connection_base_new(base, NULL, "127.0.0.1", ntohs(sin.sin_port));
	req = evhttp_request_new(done, NULL);
	evhttp_add_header(evhttp_request_get_output_headers(req), "Host", "x");
	evhttp_make_request(evcon, req, EVHTTP_REQ_GET, "/");
	event_base_once(base, -1, EV_TIMEOUT, stop, NULL, &tv);
	event_base_dispatch(base);
	bad = want_fail ? (status > 0) : (status != 200 || strcmp(got, want_body) != 0);
	printf("%-36s status=%d body=\"%s\" %s\n", name, status, got, bad ? "MIS-FRAMED" : "ok");
	evhttp_connection_free(evcon); evconnlistener_free(lev);
	return bad;
}
int main(int argc, char **argv)
{
	int bad = 0;
	base = event_base_new();
	if (argc > 1) /* the known finding */
		return run("no CL, no TE, keep-alive", "HTTP/1.1 200 OK\r\nConnection: keep-alive\r\n\r\nhello", "hello", 0);
	bad |= run("TE: gzip, chunked", "HTTP/1.1 200 OK\r\nTransfer-Encoding: gzip, chunked\r\n\r\n5\r\nhello\r\n0\r\n\r\n", "hello", 0);
	bad |= run("TE: gzip + Content-Length: 2", "HTTP/1.1 200 OK\r\nTransfer-Encoding: gzip\r\nContent-Length: 2\r\n\r\nhello", "hello", 0);
	bad |= run("Content-Length: +5", "HTTP/1.1 200 OK\r\nContent-Length: +5\r\n\r\nhello", NULL, 1);
	bad |= run("Content-Length: 5 (control)", "HTTP/1.1 200 OK\r\nContent-Length: 5\r\n\r\nhello", "hello", 0);
	return bad;
}
