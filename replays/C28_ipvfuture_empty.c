/* replay for K6:parse_authority:accepts (C28): RFC 3986 IPvFuture = "v" 1*HEXDIG "." 1*( unreserved / sub-delims / ":" ); bracket_addr_ok accepted
 * "[v1.]" (nothing after the dot), in the parser and in evhttp_uri_set_host.
 * build: cc -g -I/repo/include -I<build>/include C28_ipvfuture_empty.c <build>/lib/libevent.a -o t && ./t ; exit 0 = refused */
#include <event2/http.h>
#include <stdio.h>
int main(void)
{
	struct evhttp_uri *u = evhttp_uri_parse("http://[v1.]/"), *v = evhttp_uri_new();
	int rs = evhttp_uri_set_host(v, "[v1.]");
	printf("parse: %s; set_host: %d\n", u ? "accepted" : "refused", rs);
	return (u == NULL && rs == -1) ? 0 : 1;
}
