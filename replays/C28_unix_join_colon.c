/* replay for K6:evhttp_uri_join:unix (C28): evhttp_uri_set_unixsocket accepts any text; evhttp_uri_join writes it between "unix:" and ":".  A socket path
 * holding ':' (or '@') is read back differently: "//unix:a:b:" does not parse.
 * build: cc -g -I/repo/include -I<build>/include C28_unix_join_colon.c <build>/lib/libevent.a -o t && ./t ; exit 0 = refused or round trip */
#include <event2/http.h>
#include <stdio.h>
#include <string.h>
static int one(const char *sock)
{
	char buf[128];
	struct evhttp_uri *u = evhttp_uri_new(), *v;
	evhttp_uri_set_flags(u, EVHTTP_URI_UNIX_SOCKET);
	if (evhttp_uri_set_unixsocket(u, sock) < 0) { printf("%s: setter refused\n", sock); return 0; }
	evhttp_uri_set_path(u, "/p");
	if (!evhttp_uri_join(u, buf, sizeof buf)) { printf("%s: join refused\n", sock); return 0; }
	v = evhttp_uri_parse_with_flags(buf, EVHTTP_URI_UNIX_SOCKET);
	printf("%s: joined %s -> %s %s\n", sock, buf, v ? "parses, unixsocket" : "does NOT parse", v && evhttp_uri_get_unixsocket(v) ? evhttp_uri_get_unixsocket(v) : "");
	return (v && evhttp_uri_get_unixsocket(v) && !strcmp(evhttp_uri_get_unixsocket(v), sock)) ? 0 : 1;
}
int main(void) { return one("a:b") | one("/x@y") | one("/run/ok.sock"); }
