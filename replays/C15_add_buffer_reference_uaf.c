/* replay for K11:evbuffer_add_buffer_reference:evbuffer.first:dangling-after-release
 * evbuffer_add_buffer_reference(out, in) with out holding only an EMPTY chain (e.g. after evbuffer_expand):
 * it frees out->first, leaves the pointer dangling, and evbuffer_chain_insert() then dereferences and frees it again.
 * Expected: ASan heap-use-after-free on the unchanged tree, exit 0 on a repaired tree.
 * cc -fsanitize=address -I/repo/include -I/tmp/replay/b/include X.c /tmp/replay/b/lib/libevent_core.a */
#include <event2/buffer.h>
#include <stdio.h>
#include <string.h>
int main(void)
{
	struct evbuffer *in = evbuffer_new(), *out = evbuffer_new();
	char tmp[16];
	evbuffer_add(in, "hello", 5);
	evbuffer_expand(out, 100);	/* out: total_len == 0 but first != NULL */
	if (evbuffer_add_buffer_reference(out, in) != 0) { printf("refused\n"); return 2; }
	memset(tmp, 0, sizeof(tmp));
	evbuffer_remove(out, tmp, 5);
	printf("out got '%s', in still has %zu\n", tmp, evbuffer_get_length(in));
	evbuffer_free(out);
	evbuffer_free(in);
	return strcmp(tmp, "hello") != 0;
}
