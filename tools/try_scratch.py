#!/usr/bin/env python3
"""try_scratch.py <patch> <ID> [more IDs]: like try_seed.sh, but on a scratch copy of /repo (never touches /repo: usable while a sweep is running)."""
import sys, subprocess, io, contextlib, shutil
sys.path.insert(0, '/verif')
from engine import mutants as M, core
import os
patch = os.path.abspath(sys.argv[1])
d = M.scratch_copy()
try:
    if subprocess.run(["patch", "-p1", "-s", "-d", d, "-i", patch]).returncode:
        sys.exit("patch does not apply")
    for pid in sys.argv[2:]:
        buf = io.StringIO()
        with contextlib.redirect_stdout(buf):
            mod, res, stats = core.run_property(pid, "quick", d, ["build"])
        n = 0
        for rules in res.values():
            for r in rules:
                for b in r.broken:
                    print(pid, "BROKEN", r.id, b[:300]); n += 1
                for f_ in r.findings[:3]:
                    print(pid, "FINDING", r.id, f_.key, f_.msg[:300]); n += 1
        print(pid, "->", "%d findings/broken (known findings included)" % n)
finally:
    shutil.rmtree(d, ignore_errors=True)
