#!/usr/bin/env python3
"""Regenerates MANIFEST.json from engine/registry.py (claimed checks) + the not-applicable table."""
import json, os, sys
V = os.path.dirname(os.path.dirname(os.path.abspath(__file__)))
sys.path.insert(0, V)
from engine import registry as R
props = [json.loads(l) for l in open(os.path.join(V, "properties.jsonl"))]
ids = [p["id"] for p in props]
checks, na = [], []
for pid in ids:
    if pid in R.CLAIMED and os.path.exists(os.path.join(V, "engine", "props", pid + ".py")):
        c = R.CLAIMED[pid]
        checks.append({
            "property_id": pid,
            "quick_cmd": "./check %s --tier quick" % pid,
            "thorough_cmd": "./check %s --tier thorough" % pid,
            "evidence_file": "/verif/evidence/%s.json" % pid,
            "replay_cmd_template": "./check %s --replay {path}" % pid,
            "engine": "lvx+engine",
            "level_claimed": {"category": c["level"], "text": c["text"], "design_ref": c.get("ref", "DESIGN.md section 3, " + pid)},
            "level_note": c["note"],
            "technique": c["technique"],
        })
    else:
        na.append({"property_id": pid, "reason": R.NOT_APPLICABLE.get(pid, "check not built yet (DESIGN.md section 4 gives the build order); not claimed")})
m = {
    "version": 1,
    "setup_cmd": "tools/build.sh",
    "hooks": {"guard": "LIBEVENT_VERIF",
              "enable": "none needed: static analysis parses /repo's sources as they are (clang LibTooling over the cmake compilation database); no hook is compiled in",
              "baseline_off_cmd": "cmake -G Ninja -S /repo -B /repo/_build && cmake --build /repo/_build && ctest --test-dir /repo/_build -j8 --timeout 900",
              "source_commits": [], "add_only": True},
    "engines": [{"name": "lvx+engine", "path": "/verif/check",
                 "serves_properties": [c["property_id"] for c in checks],
                 "kind_free_text": "static analysis: tools/lvx.cc (clang 14 LibTooling fact extractor: type-resolved AST, per-function CFG, macro roles, constant tables, function-pointer slots) + engine/ (Python rule kinds K1-K12: balance, who-may, order/dominance, guard, atomicity, table model, sibling agreement, flow, iteration, exhaustiveness, ownership, error propagation). Never executes libevent code."}],
    "checks": checks,
    "notes": R.NOTES,
    "not_applicable": na,
}
json.dump(m, open(os.path.join(V, "MANIFEST.json"), "w"), indent=1)
print("checks:", len(checks), "not_applicable:", len(na))
