#!/usr/bin/env python3
"""mkmut.py <ID-name> <file-in-repo> <old-text> <new-text> [occurrence]
Creates selftest/mutants/<ID-name>.patch (p1) replacing the given occurrence (1-based, default 1) of
old-text by new-text in /repo/<file>. /repo is never modified."""
import sys, os, subprocess, tempfile, shutil
name, rel, old, new = sys.argv[1:5]
occ = int(sys.argv[5]) if len(sys.argv) > 5 else 1
old = old.encode().decode("unicode_escape"); new = new.encode().decode("unicode_escape")
src = open(os.path.join("/repo", rel)).read()
pos = -1
for _ in range(occ):
    pos = src.find(old, pos + 1)
    if pos < 0:
        sys.exit("old text not found (occurrence %d)" % occ)
dst = src[:pos] + new + src[pos + len(old):]
d = tempfile.mkdtemp()
try:
    for sub, txt in (("a", src), ("b", dst)):
        p = os.path.join(d, sub, rel); os.makedirs(os.path.dirname(p), exist_ok=True); open(p, "w").write(txt)
    r = subprocess.run(["diff", "-u", os.path.join("a", rel), os.path.join("b", rel)], cwd=d, stdout=subprocess.PIPE)
    out = os.path.join(os.path.dirname(os.path.dirname(os.path.abspath(__file__))), "selftest", "mutants", name + ".patch")
    os.makedirs(os.path.dirname(out), exist_ok=True)
    open(out, "wb").write(r.stdout)
    print(out, len(r.stdout.splitlines()), "lines")
finally:
    shutil.rmtree(d)
