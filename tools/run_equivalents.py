#!/usr/bin/env python3
"""run_equivalents.py [ID...]: the other half of the self-test.  Every selftest/equivalents/<ID>-eq-*.patch is a behaviour-preserving rewrite of libevent (all of them together build and
pass the 68 baseline programs and the replays).  Each is applied to a scratch copy of the sources and the property's check (plus the sibling checks listed in EXTRA) is run on the copy:
it must report nothing new and must not break.  A report here is a false alarm of the checker, to be repaired in the rule - never in the patch."""
import sys, os, glob, subprocess, shutil
sys.path.insert(0, os.path.dirname(os.path.dirname(os.path.abspath(__file__))))
from engine import mutants as M, facts as F
EXTRA = {"C17-eq-readcb-error-inline": ["C18", "C19", "C20", "C22", "C16"], "C20-eq-writecb-not-length": ["C17", "C18"], "C19-eq-decref-minus-equals": ["C10", "C17"],
         "C17-eq-pair-unfreeze-order": ["C18"], "C17-eq-filter-eventcb-test-order": ["C18"], "C17-eq-tls-read-len-check": ["C22"], "C28-eq-set-flags-mask-first": [],
         "C29-eq-last-val-before-decode": ["C26"], "C27-eq-write-buffer-arg-first": ["C26"], "C38-eq-min-ternary": ["C34"], "C39-eq-strmatch-rewritten": [], "C30-eq-glob-for-loop": []}
want = set(sys.argv[1:])
rc = 0
base = {}
for p in sorted(glob.glob(os.path.join(F.VERIF, "selftest", "equivalents", "*.patch"))):
    name = os.path.basename(p)[:-6]
    pid = name.split("-")[0]
    pids = [pid] + EXTRA.get(name, [])
    if want and not (want & set(pids)):
        continue
    d = M.scratch_copy()
    try:
        r = subprocess.run(["patch", "-p1", "-s", "-d", d, "-i", p], stdout=subprocess.PIPE, stderr=subprocess.STDOUT)
        if r.returncode != 0:
            print("EQUIVALENT %s does not apply: %s" % (name, r.stdout.decode()[-200:]))
            rc = 2
            continue
        for q in pids:
            if want and q not in want:
                continue
            if q not in base:
                base[q] = M.findings_on(q, F.REPO)[0]
            keys, broken = M.findings_on(q, d)
            new = sorted(keys - base[q])
            if new or broken:
                rc = 1
                print("EQUIVALENT %s under %s: FALSE ALARM %s%s" % (name, q, new[:4], " (analysis broken)" if broken else ""))
            else:
                print("EQUIVALENT %s under %s: silent" % (name, q))
    finally:
        shutil.rmtree(d, ignore_errors=True)
sys.exit(rc)
