#!/bin/bash
# confirm_seed.sh <worktree> <demo-link-libs...>
# Independently confirms a seeded change produced in a scratch worktree: it compiles, the 68 baseline tests still pass,
# the demonstration fails with the change and passes without it. Writes <worktree>/_seed/confirm.txt
W=$1; shift
LIBS="$@"
cd "$W" || exit 2
OUT=_seed/confirm.txt
: > $OUT
git diff --stat | tail -1 >> $OUT
cmake --build _b >/dev/null 2>&1 || { echo "BUILD FAILED with change" >> $OUT; exit 1; }
ctest --test-dir _b -j8 --timeout 900 -E regress 2>&1 | grep "tests passed\|tests failed" >> $OUT
build_demo() {
  local extra=""
  ls _seed/*.gen.c >/dev/null 2>&1 && extra="$(ls _seed/*.gen.c)"
  cc -g -I_seed -Iinclude -I_b/include _seed/demo.c $extra $LIBS -lpthread -o _seed/demo.bin 2>>$OUT
}
build_demo || { echo "DEMO BUILD FAILED" >> $OUT; exit 1; }
( cd _seed && timeout 120 ./demo.bin > demo_with.out 2>&1; echo "demo with change: exit=$?" ) >> $OUT
git diff > _seed/.confirm.patch; git apply -R _seed/.confirm.patch
cmake --build _b >/dev/null 2>&1
build_demo
( cd _seed && timeout 120 ./demo.bin > demo_without.out 2>&1; echo "demo without change: exit=$?" ) >> $OUT
git apply _seed/.confirm.patch; rm -f _seed/.confirm.patch
cmake --build _b >/dev/null 2>&1
cat $OUT
