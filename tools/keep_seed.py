#!/usr/bin/env python3
"""keep_seed.py <ID> <name> <caught_by (rule ids, comma)> <needs...>: copies a confirmed seeded change from /tmp/seed/<ID>/_seed into
/verif/seeded/<ID>-<name>/ with meta.json."""
import sys, os, shutil, json, subprocess
pid, name, caught = sys.argv[1], sys.argv[2], sys.argv[3]
needs = " ".join(sys.argv[4:])
src = "/tmp/seed/%s/_seed" % pid
dst = "/verif/seeded/%s-%s" % (pid, name)
os.makedirs(dst, exist_ok=True)
for f in os.listdir(src):
    if f.endswith((".bin",)) or f in ("demo", "demo_asan") or f.endswith(".log") and os.path.getsize(os.path.join(src, f)) > 200000:
        continue
    p = os.path.join(src, f)
    if os.path.isfile(p) and os.path.getsize(p) < 400000 and not os.access(p, os.X_OK) or f.endswith((".c", ".h", ".md", ".diff", ".txt", ".out")):
        shutil.copy(p, os.path.join(dst, f))
confirm = open(os.path.join(src, "confirm.txt")).read() if os.path.exists(os.path.join(src, "confirm.txt")) else ""
meta = {"property": pid, "name": name, "origin": "independent sub-agent given only the property text and a scratch worktree",
        "needs_to_manifest": needs,
        "confirmed_by_me": {"how": "tools/confirm_seed.sh in the scratch worktree: rebuild with the change, ctest -E regress (68 baseline programs), "
                                   "demo built and run with the change (must fail) and without it (must pass)",
                            "result": confirm.strip().splitlines()},
        "checks_run": "tools/try_seed.sh patch.diff %s (git -C /repo apply; ./check; git -C /repo checkout -- .)" % pid,
        "caught_by": caught.split(",")}
json.dump(meta, open(os.path.join(dst, "meta.json"), "w"), indent=1)
print(dst, os.listdir(dst))
