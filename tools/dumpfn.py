#!/usr/bin/env python3
"""dumpfn.py <unit> <function> [config]: print the CFG facts of one function (development aid)."""
import sys, os
sys.path.insert(0, os.path.dirname(os.path.dirname(os.path.abspath(__file__))))
from engine import core, facts as F
from engine.prog import show
unit, fn = sys.argv[1], sys.argv[2]
cfg = sys.argv[3] if len(sys.argv) > 3 else "build"
raw = "--raw" in sys.argv
ctx = core.Ctx("quick")
P = ctx.prog([unit], cfg)
f = P.fn(fn)
print(f, "entry", f.entry, "exit", f.exit, "params", f.params)
for bid in sorted(f.blocks, reverse=True):
    b = f.blocks[bid]
    print("B%d%s preds=%s" % (bid, " NORETURN" if b.noreturn else "", [p for p, _ in b.preds]))
    for el in b.elems:
        print("   %d.%d L%d %s   %s" % (bid, el.idx, el.line, (el.e if raw else show(el.e))[:200] if not raw else el.e, ("mac=" + ",".join(el.mac)) if el.mac else ""))
    if b.term:
        t = b.term
        print("   TERM %s L%s %s %s" % (t.get("k"), t.get("loc"), (t.get("cond") if raw else show(t.get("cond")))[:200] if t.get("cond") is not None and not raw else t.get("cond"), ("mac=" + ",".join(t.get("mac", []))) if t.get("mac") else ""))
    print("   succ", b.succ)
