#!/bin/bash
# runs every registered quick check (in parallel) and prints one line per check; non-zero if any is not a pass
cd "$(dirname "$0")/.."
ids=$(python3 -c "import json;print(' '.join(c['property_id'] for c in json.load(open('MANIFEST.json'))['checks']))")
rc=0
tmp=$(mktemp -d)
for id in $ids; do ( ./check $id ${1:+--tier $1} > $tmp/$id.out 2>&1; echo $? > $tmp/$id.rc ) & 
  while [ $(jobs -r | wc -l) -ge 6 ]; do sleep 0.2; done
done
wait
for id in $ids; do r=$(cat $tmp/$id.rc); echo "$id exit=$r $(tail -1 $tmp/$id.out)"; [ "$r" = 0 ] || { rc=1; grep -v "^RULE.* ok$" $tmp/$id.out | head -8; }; done
rm -rf $tmp
exit $rc
