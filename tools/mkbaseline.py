#!/usr/bin/env python3
"""mkbaseline.py: records the names of all functions of the reference tree (/repo as it is now) in selftest/baseline_functions.json.  engine/inline.py splices a static function that
is NOT in this list, has one caller and is never referenced otherwise, back into that caller before the rules run.  Regenerate after a fix: commit that adds a function."""
import sys, os, json
sys.path.insert(0, os.path.dirname(os.path.dirname(os.path.abspath(__file__))))
from engine import facts as F
from engine.core import Ctx
ctx = Ctx("quick")
names = set()
for cfg in sorted(F.CONFIGS):
    facts = F.extract(tuple(sorted(F.UNITS)), cfg, F.REPO, ctx.db())
    for u, f in facts.items():
        for fd in f["functions"]:
            names.add(fd["name"])
out = os.path.join(F.VERIF, "selftest", "baseline_functions.json")
json.dump(sorted(names), open(out, "w"), indent=0)
print(len(names), "functions ->", out)
