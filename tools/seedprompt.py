#!/usr/bin/env python3
"""seedprompt.py <ID> [suffix] [extra hint...] -> prints the prompt for an independent sub-agent (it is given only the property text and its scratch worktree)."""
import sys
pid = sys.argv[1]; suf = sys.argv[2] if len(sys.argv) > 2 else ""; extra = " ".join(sys.argv[3:])
W = "/tmp/seed/%s%s" % (pid, suf)
prop = open("/tmp/seed/%s%s.prop.txt" % (pid, suf)).read().strip()
print(f"""You are helping test a verification effort for the C library libevent. Work ONLY inside the git worktree {W} (a checkout of libevent, already configured and built once in {W}/_b). Do not read or touch /verif or /repo. There is no network.

The property to break (also in {W}.prop.txt):

"{prop}"

Your task: make ONE small, realistic source change to libevent in {W} (the kind of mistake a developer could plausibly make in a refactor, an optimisation or a new feature) that BREAKS this property while:
 1. the library still compiles, and
 2. the existing small test programs still pass. Build and test like this (takes a few minutes):
      cd {W} && cmake --build _b 2>&1 | tail -3 && ctest --test-dir _b -j8 --timeout 900 -E regress 2>&1 | tail -5
    (the `regress` tests fail in this sandbox even without any change; ignore them. All other tests — test-changelist, test-closed, test-dumpevents, test-eof, test-fdleak, test-init, test-time, test-weof per backend, and test-ratelim, 68 in total — must still pass.)
 3. The breakage must need something specific to manifest — a particular interleaving or multi-step sequence of API calls, a fault at a particular point (failing allocation via event_set_mem_functions, a failing syscall), an unusual input or configuration, or two cooperating sites that each look fine alone. It must NOT be something ordinary use exposes at once (the tests must stay green).
 4. Be creative about *where* and *how*: read the code that implements the property first, pick a spot that a reviewer could miss. Avoid trivial sabotage (deleting a whole function body, returning a constant). {extra}

Also write a small demonstration C program that FAILS (non-zero exit, abort, sanitizer report, or hang detected by alarm()) with your change and PASSES (exit 0) without it. Link it against the static libraries of your build, e.g.
      cc -g -I{W}/include -I{W}/_b/include demo.c {W}/_b/lib/libevent_extra.a {W}/_b/lib/libevent_core.a {W}/_b/lib/libevent_pthreads.a -lpthread -o demo
(internal headers such as event-internal.h may be included from {W} if you need to observe internal state, but prefer the public API.) Verify both directions yourself: build with the change -> demo fails; revert the change with `git diff > /tmp/seed/{pid}{suf}.my.diff && git apply -R /tmp/seed/{pid}{suf}.my.diff`, rebuild -> demo passes; `git apply /tmp/seed/{pid}{suf}.my.diff` to restore the change and rebuild. Do NOT use `git stash` (the stash is shared between worktrees of one repository and other people work in sibling worktrees).

Deliverables, all under {W}/_seed/ (create the directory):
  - patch.diff : output of `git diff` for your source change only (no build dirs, no demo)
  - demo.c (and any helper files; if you need extra link libraries say so in notes.md)
  - notes.md : which function/site you changed, why it breaks the property, exactly what is needed for it to manifest, the exact commands you ran (build, tests, demo with and without the change) and their observed results (copy the relevant output lines, including the ctest summary line).
Leave the change applied in the worktree when you finish. In your final answer, summarise in a few lines: the changed function, the trigger condition, and confirm the test results and both demo runs.""")
