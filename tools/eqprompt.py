#!/usr/bin/env python3
"""eqprompt.py <group> <worktree> <ids...>: prompt for a sub-agent that writes behaviour-preserving rewrites (the false-alarm half of the self-test).  It sees only the property texts."""
import sys, json
grp, W = sys.argv[1], sys.argv[2]
ids = [a for a in sys.argv[3:] if not a.startswith("--")]
bold = "--bold" in sys.argv
props = {}
for l in open('/verif/properties.jsonl'):
    p = json.loads(l)
    if p['id'] in ids:
        props[p['id']] = "%s — %s. %s" % (p['id'], p['title'], p['statement'])
print(f"""You are helping test a static-analysis effort for the C library libevent. Work ONLY inside the git worktree {W} (a checkout of libevent, already configured and built once in {W}/_b). Do not read or touch /verif or /repo. There is no network.

Background: a set of checkers decides properties of libevent from its source code. A checker must never raise an alarm on code that still has the property. To test that, we need BEHAVIOUR-PRESERVING rewrites of the code that implements these properties:

""" + "\n\n".join(props[i] for i in ids) + f"""

Your task: write 10 to 12 small, independent, behaviour-preserving source rewrites (refactorings) of libevent in {W}, each inside a function that implements one of the properties above (read the code first; spread them over the properties and over different functions). Each rewrite must leave the observable behaviour of the library EXACTLY as it is for every input, state and schedule — not just for the tests. Good kinds of rewrite: swap the branches of an if with the condition negated; turn a goto-cleanup into an inlined cleanup or the reverse; hoist or sink a declaration; split a compound condition into nested ifs or merge nested ifs; replace `x == 0` by `!x`, `a - b > 0` only if it is exactly equivalent for the types involved; introduce a local variable for a repeated sub-expression that has no side effects and cannot change in between; turn a while loop into an equivalent for loop or do-while with a guard; reorder two adjacent statements that are independent (no data, aliasing or ordering dependence — be careful with locks, callbacks and evbuffer operations that run callbacks); replace a macro use by its expansion; change `i++` to `++i` where the value is unused; use a ternary instead of if/else for an assignment. """ + ("This is a second round: the simple rewrites above have been done. Prefer BOLDER (but still exactly behaviour-preserving) refactorings this time: extract a few statements into a new static helper function (or inline a small static helper into its only caller); keep the result of a comparison in a local flag and branch on the flag later; replace an if/else-if chain by a switch (or the reverse) where the types allow it exactly; restructure a loop (while <-> for <-> do-while with guard, or loop with break <-> loop with flag); replace early returns by a single exit with a result variable (or the reverse); compute an index or a length through a named intermediate; split a function's long condition over several ifs with the same short-circuit order; rename locals; replace a macro invocation by its expansion or wrap a repeated expression into a new function-like macro. " if bold else "") + """Avoid rewrites that change integer width/signedness of intermediate results, evaluation order of calls with side effects, what happens on allocation failure, or the sequence of library/system calls.

Rules:
 - each rewrite is ONE patch file touching one function (at most ~25 changed lines), named {W}/_eq/NN-<property id>-<short-name>.patch (NN = 01, 02, ...), produced with `git diff` against the unmodified checkout (so every patch applies on its own to a clean tree: make one, save the diff, `git checkout -- .`, make the next);
 - after all are written, apply them ALL together (`git checkout -- . && for p in _eq/*.patch; do git apply $p || echo FAIL $p; done`) — if two conflict, move one of them elsewhere — then build and test:
      cd {W} && cmake --build _b 2>&1 | tail -3 && ctest --test-dir _b -j8 --timeout 900 -E regress 2>&1 | tail -5
   (the `regress` tests fail in this sandbox even without any change; ignore them. The 68 other tests must pass, and the build must not produce new warnings in the files you touched.)
 - write {W}/_eq/notes.md with one line per patch: file, function, kind of rewrite, and the one-sentence argument why behaviour is unchanged.
 - leave the worktree clean (`git checkout -- .`) when you finish, keeping the _eq directory.
In your final answer list the patches (name: function, kind of rewrite) and confirm the build and test result with all of them applied.""")
