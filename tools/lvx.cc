// lvx: libevent fact extractor (LibTooling).
//
// usage: lvx <out.json> <repo-root> <source.c> -- <compiler flags...>
//
// Emits, for one translation unit: records, enums, file-scope variable
// initialisers, function-value uses, and for every function defined in a file
// under <repo-root> (or the generated include dir) its clang::CFG with typed
// s-expression elements.  No libevent code is executed.
#include "clang/AST/ASTConsumer.h"
#include "clang/AST/ASTContext.h"
#include "clang/AST/ParentMapContext.h"
#include "clang/AST/RecursiveASTVisitor.h"
#include "clang/Analysis/CFG.h"
#include "clang/Basic/Builtins.h"
#include "clang/Frontend/CompilerInstance.h"
#include "clang/Frontend/FrontendAction.h"
#include "clang/Lex/Lexer.h"
#include "clang/Tooling/CompilationDatabase.h"
#include "clang/Tooling/Tooling.h"
#include "llvm/Support/JSON.h"
#include "llvm/Support/raw_ostream.h"
#include <map>
#include <set>
#include <string>

using namespace clang;
namespace json = llvm::json;

static std::string gOut, gRoot;

namespace {

struct Ctx {
  ASTContext &AC;
  SourceManager &SM;
  const LangOptions &LO;
  Ctx(ASTContext &A) : AC(A), SM(A.getSourceManager()), LO(A.getLangOpts()) {}
};

static std::string fileOf(Ctx &C, SourceLocation L) {
  L = C.SM.getExpansionLoc(L);
  if (L.isInvalid()) return "";
  return C.SM.getFilename(L).str();
}
static unsigned lineOf(Ctx &C, SourceLocation L) {
  return C.SM.getExpansionLineNumber(L);
}
static bool inRepo(Ctx &C, SourceLocation L) {
  std::string f = fileOf(C, L);
  if (f.empty()) return false;
  if (C.SM.isInSystemHeader(C.SM.getExpansionLoc(L))) return false;
  if (f.compare(0, gRoot.size(), gRoot) == 0) return true;
  // generated config headers
  if (f.find("/event2/event-config.h") != std::string::npos ||
      f.find("evconfig-private.h") != std::string::npos)
    return true;
  return false;
}
static std::string rel(const std::string &f) {
  if (f.compare(0, gRoot.size(), gRoot) == 0) {
    std::string r = f.substr(gRoot.size());
    while (!r.empty() && r[0] == '/') r = r.substr(1);
    return r;
  }
  return f;
}

static std::string srcText(Ctx &C, SourceRange R, unsigned maxlen = 160) {
  if (R.isInvalid()) return "";
  CharSourceRange CR = C.SM.getExpansionRange(R);
  bool Invalid = false;
  StringRef T = Lexer::getSourceText(CR, C.SM, C.LO, &Invalid);
  if (Invalid) return "";
  std::string s = T.str();
  // squeeze whitespace
  std::string o;
  bool sp = false;
  for (char ch : s) {
    if (ch == '\n' || ch == '\t' || ch == ' ' || ch == '\\' || ch == '\r') {
      sp = true;
      continue;
    }
    if (sp && !o.empty()) o += ' ';
    sp = false;
    o += ch;
  }
  if (o.size() > maxlen) o = o.substr(0, maxlen);
  return o;
}

static json::Array macroStack(Ctx &C, SourceLocation L) {
  json::Array A;
  std::string last;
  int guard = 0;
  while (L.isMacroID() && guard++ < 40) {
    std::string n = Lexer::getImmediateMacroName(L, C.SM, C.LO).str();
    if (n != last) A.push_back(n);
    last = n;
    L = C.SM.getImmediateMacroCallerLoc(L);
  }
  return A;
}

static std::string recName(const RecordDecl *RD) {
  if (!RD) return "?";
  if (RD->getIdentifier()) return RD->getName().str();
  if (const TypedefNameDecl *TD = RD->getTypedefNameForAnonDecl())
    return TD->getName().str();
  // anonymous: name after the parent record and the field that holds it
  const DeclContext *DC = RD->getDeclContext();
  if (const RecordDecl *P = dyn_cast<RecordDecl>(DC)) {
    for (const FieldDecl *F : P->fields()) {
      const Type *T = F->getType().getTypePtr();
      while (T->isArrayType()) T = T->getArrayElementTypeNoTypeQual();
      if (T->getAsRecordDecl() &&
          (const Decl *)T->getAsRecordDecl()->getCanonicalDecl() == (const Decl *)RD->getCanonicalDecl())
        return recName(P) + "::" + F->getName().str();
    }
    return recName(P) + "::anon";
  }
  return "anon";
}

static std::string fieldName(const FieldDecl *F) {
  return recName(F->getParent()) + "." + F->getName().str();
}

struct ExprSer {
  Ctx &C;
  ExprSer(Ctx &c) : C(c) {}

  static const Expr *strip(const Expr *E) {
    while (E) {
      if (const auto *P = dyn_cast<ParenExpr>(E)) { E = P->getSubExpr(); continue; }
      if (const auto *IC = dyn_cast<ImplicitCastExpr>(E)) { E = IC->getSubExpr(); continue; }
      if (const auto *CE = dyn_cast<ConstantExpr>(E)) { E = CE->getSubExpr(); continue; }
      if (const auto *CE = dyn_cast<CallExpr>(E)) {
        if (const FunctionDecl *FD = CE->getDirectCallee())
          if (FD->getBuiltinID() == Builtin::BI__builtin_expect && CE->getNumArgs() >= 1) {
            E = CE->getArg(0);
            continue;
          }
      }
      break;
    }
    return E;
  }

  json::Value ty(QualType T) { return T.getAsString(); }

  json::Value ser(const Expr *E, bool fold = true) {
    E = strip(E);
    if (!E) return json::Array{"null"};
    // constant folding of integer expressions (keeps the spelling)
    if (fold && !E->isValueDependent() && E->getType()->isIntegralOrEnumerationType() &&
        !isa<CallExpr>(E)) {
      Expr::EvalResult R;
      if (E->EvaluateAsInt(R, C.AC, Expr::SE_NoSideEffects)) {
        llvm::APSInt V = R.Val.getInt();
        json::Array A{"int"};
        if (V.isSigned() || V.getActiveBits() < 63)
          A.push_back((int64_t)V.getExtValue());
        else
          A.push_back((int64_t)V.getZExtValue());
        std::string sp = srcText(C, E->getSourceRange(), 60);
        A.push_back(sp);
        return std::move(A);
      }
    }
    if (const auto *SL = dyn_cast<StringLiteral>(E)) {
      if (SL->getCharByteWidth() == 1) return json::Array{"str", SL->getString().str()};
      return json::Array{"str", "<wide>"};
    }
    if (const auto *DR = dyn_cast<DeclRefExpr>(E)) {
      const ValueDecl *D = DR->getDecl();
      if (const auto *FD = dyn_cast<FunctionDecl>(D)) return json::Array{"fn", FD->getName().str()};
      if (const auto *VD = dyn_cast<VarDecl>(D)) {
        const char *k = "local";
        if (isa<ParmVarDecl>(VD)) k = "param";
        else if (VD->hasGlobalStorage()) k = VD->isLocalVarDecl() ? "lstatic" : "global";
        return json::Array{"var", VD->getName().str(), k};
      }
      if (const auto *EC = dyn_cast<EnumConstantDecl>(D))
        return json::Array{"int", (int64_t)EC->getInitVal().getExtValue(), EC->getName().str()};
      return json::Array{"other", "declref"};
    }
    if (const auto *ME = dyn_cast<MemberExpr>(E)) {
      const auto *F = dyn_cast<FieldDecl>(ME->getMemberDecl());
      std::string fn = F ? fieldName(F) : ME->getMemberDecl()->getNameAsString();
      return json::Array{"fld", ser(ME->getBase()), fn, ME->isArrow() ? "->" : "."};
    }
    if (const auto *AS = dyn_cast<ArraySubscriptExpr>(E))
      return json::Array{"idx", ser(AS->getBase()), ser(AS->getIdx())};
    if (const auto *UO = dyn_cast<UnaryOperator>(E)) {
      switch (UO->getOpcode()) {
      case UO_Deref: return json::Array{"deref", ser(UO->getSubExpr())};
      case UO_AddrOf: return json::Array{"addr", ser(UO->getSubExpr())};
      case UO_PreInc: return json::Array{"incdec", "++", "pre", ser(UO->getSubExpr())};
      case UO_PreDec: return json::Array{"incdec", "--", "pre", ser(UO->getSubExpr())};
      case UO_PostInc: return json::Array{"incdec", "++", "post", ser(UO->getSubExpr())};
      case UO_PostDec: return json::Array{"incdec", "--", "post", ser(UO->getSubExpr())};
      case UO_Extension: return ser(UO->getSubExpr());
      default:
        return json::Array{"un", UnaryOperator::getOpcodeStr(UO->getOpcode()).str(),
                           ser(UO->getSubExpr())};
      }
    }
    if (const auto *BO = dyn_cast<BinaryOperator>(E)) {
      std::string op = BO->getOpcodeStr().str();
      if (BO->isAssignmentOp()) return json::Array{"asg", op, ser(BO->getLHS()), ser(BO->getRHS())};
      return json::Array{"bin", op, ser(BO->getLHS()), ser(BO->getRHS())};
    }
    if (const auto *CO = dyn_cast<ConditionalOperator>(E))
      return json::Array{"cond", ser(CO->getCond()), ser(CO->getTrueExpr()), ser(CO->getFalseExpr())};
    if (const auto *CO = dyn_cast<BinaryConditionalOperator>(E))
      return json::Array{"cond", ser(CO->getCommon()), ser(CO->getCommon()), ser(CO->getFalseExpr())};
    if (const auto *OV = dyn_cast<OpaqueValueExpr>(E)) return ser(OV->getSourceExpr());
    if (const auto *CE = dyn_cast<ExplicitCastExpr>(E))
      return json::Array{"cast", ty(CE->getType()), ser(CE->getSubExpr())};
    if (const auto *CE = dyn_cast<CallExpr>(E)) {
      json::Array args;
      for (const Expr *A : CE->arguments()) args.push_back(ser(A));
      return json::Array{"call", callee(CE), std::move(args)};
    }
    if (const auto *IL = dyn_cast<InitListExpr>(E)) return serInit(IL);
    if (const auto *CL = dyn_cast<CompoundLiteralExpr>(E))
      return json::Array{"cast", ty(CL->getType()), ser(CL->getInitializer())};
    if (const auto *UE = dyn_cast<UnaryExprOrTypeTraitExpr>(E)) {
      return json::Array{"sizeof", srcText(C, UE->getSourceRange(), 60)};
    }
    if (const auto *SE = dyn_cast<StmtExpr>(E)) {
      // value of a GNU statement expression: its last expression
      const CompoundStmt *CS = SE->getSubStmt();
      if (CS && !CS->body_empty())
        if (const auto *LE = dyn_cast<Expr>(CS->body_back())) return json::Array{"stmtexpr", ser(LE)};
      return json::Array{"stmtexpr", json::Array{"null"}};
    }
    if (isa<ImplicitValueInitExpr>(E)) return json::Array{"int", 0, "<zero>"};
    if (const auto *FL = dyn_cast<FloatingLiteral>(E))
      return json::Array{"float", FL->getValueAsApproximateDouble()};
    if (const auto *VA = dyn_cast<VAArgExpr>(E)) return json::Array{"vaarg", ty(VA->getType())};
    if (isa<PredefinedExpr>(E)) return json::Array{"str", "<func>"};
    if (const auto *DI = dyn_cast<DesignatedInitExpr>(E)) return ser(DI->getInit());
    return json::Array{"other", E->getStmtClassName()};
  }

  json::Value serInit(const InitListExpr *IL) {
    if (IL->isSyntacticForm() && IL->getSemanticForm()) IL = IL->getSemanticForm();
    QualType T = IL->getType();
    if (const RecordDecl *RD = T->getAsRecordDecl()) {
      json::Array fs;
      if (RD->isUnion()) {
        if (const FieldDecl *F = IL->getInitializedFieldInUnion())
          if (IL->getNumInits() >= 1) fs.push_back(json::Array{fieldName(F), ser(IL->getInit(0))});
      } else {
        unsigned i = 0;
        for (const FieldDecl *F : RD->fields()) {
          if (F->isUnnamedBitfield()) continue;
          if (i >= IL->getNumInits()) break;
          fs.push_back(json::Array{fieldName(F), ser(IL->getInit(i))});
          ++i;
        }
      }
      return json::Array{"sinit", recName(RD), std::move(fs)};
    }
    json::Array es;
    for (unsigned i = 0; i < IL->getNumInits(); ++i) es.push_back(ser(IL->getInit(i)));
    json::Array R{"ainit", std::move(es)};
    if (IL->hasArrayFiller()) R.push_back(ser(IL->getArrayFiller()));
    return std::move(R);
  }

  json::Value callee(const CallExpr *CE) {
    if (const FunctionDecl *FD = CE->getDirectCallee()) return json::Array{"fn", FD->getName().str()};
    const Expr *X = strip(CE->getCallee());
    while (X) {
      if (const auto *UO = dyn_cast<UnaryOperator>(X))
        if (UO->getOpcode() == UO_Deref) { X = strip(UO->getSubExpr()); continue; }
      break;
    }
    if (const auto *ME = dyn_cast_or_null<MemberExpr>(X))
      if (const auto *F = dyn_cast<FieldDecl>(ME->getMemberDecl()))
        return json::Array{"slot", fieldName(F), ser(ME->getBase())};
    return json::Array{"ptr", ser(X)};
  }
};

class Extractor : public RecursiveASTVisitor<Extractor> {
public:
  Ctx C;
  ExprSer S;
  json::Array records, enums, globals, fnrefs, functions;
  std::set<const Decl *> seenRec;
  std::set<std::string> seenEnum;
  std::set<const FunctionDecl *> seenFn;
  const FunctionDecl *curFn = nullptr;

  Extractor(ASTContext &A) : C(A), S(C) {}

  bool shouldVisitImplicitCode() const { return false; }

  bool VisitRecordDecl(RecordDecl *RD) {
    if (!RD->isCompleteDefinition()) return true;
    if (!inRepo(C, RD->getLocation())) return true;
    if (!seenRec.insert(RD->getCanonicalDecl()).second) return true;
    json::Array fs;
    for (const FieldDecl *F : RD->fields())
      fs.push_back(json::Array{F->getName().str(), F->getType().getAsString()});
    records.push_back(json::Object{{"name", recName(RD)},
                                   {"file", rel(fileOf(C, RD->getLocation()))},
                                   {"line", (int64_t)lineOf(C, RD->getLocation())},
                                   {"union", RD->isUnion()},
                                   {"fields", std::move(fs)}});
    return true;
  }

  bool VisitEnumDecl(EnumDecl *ED) {
    if (!ED->isCompleteDefinition()) return true;
    if (!inRepo(C, ED->getLocation())) return true;
    std::string n = ED->getIdentifier() ? ED->getName().str()
                    : ED->getTypedefNameForAnonDecl()
                        ? ED->getTypedefNameForAnonDecl()->getName().str()
                        : "anon@" + rel(fileOf(C, ED->getLocation())) + ":" +
                              std::to_string(lineOf(C, ED->getLocation()));
    if (!seenEnum.insert(n).second) return true;
    json::Array it;
    for (const EnumConstantDecl *E : ED->enumerators())
      it.push_back(json::Array{E->getName().str(), (int64_t)E->getInitVal().getExtValue()});
    enums.push_back(json::Object{{"name", n}, {"items", std::move(it)}});
    return true;
  }

  bool VisitVarDecl(VarDecl *VD) {
    if (isa<ParmVarDecl>(VD)) return true;
    if (!VD->hasGlobalStorage()) return true;
    if (!inRepo(C, VD->getLocation())) return true;
    if (!VD->hasInit() && !VD->isThisDeclarationADefinition()) return true;
    json::Object O{{"name", VD->getName().str()},
                   {"type", VD->getType().getAsString()},
                   {"file", rel(fileOf(C, VD->getLocation()))},
                   {"line", (int64_t)lineOf(C, VD->getLocation())},
                   {"static", VD->getStorageClass() == SC_Static},
                   {"local", VD->isLocalVarDecl()},
                   {"const", VD->getType().isConstQualified() ||
                                 (VD->getType()->isArrayType() &&
                                  C.AC.getBaseElementType(VD->getType()).isConstQualified())}};
    if (curFn) O["in_fn"] = curFn->getName().str();
    if (VD->hasInit()) O["init"] = S.ser(VD->getInit());
    globals.push_back(std::move(O));
    return true;
  }

  // function used as a value
  bool VisitDeclRefExpr(DeclRefExpr *DR) {
    const auto *FD = dyn_cast<FunctionDecl>(DR->getDecl());
    if (!FD) return true;
    if (!inRepo(C, DR->getLocation())) return true;
    // walk up parents
    DynTypedNode N = DynTypedNode::create(*DR);
    const Stmt *child = DR;
    json::Object ctx;
    bool done = false;
    for (int depth = 0; depth < 12 && !done; ++depth) {
      auto Ps = C.AC.getParents(N);
      if (Ps.empty()) break;
      const DynTypedNode &P = Ps[0];
      if (const auto *PE = P.get<Stmt>()) {
        if (isa<ParenExpr>(PE) || isa<ImplicitCastExpr>(PE) || isa<ExplicitCastExpr>(PE) ||
            (isa<UnaryOperator>(PE) && (cast<UnaryOperator>(PE)->getOpcode() == UO_AddrOf ||
                                        cast<UnaryOperator>(PE)->getOpcode() == UO_Deref))) {
          child = PE; N = P; continue;
        }
        if (const auto *CE = dyn_cast<CallExpr>(PE)) {
          if (ExprSer::strip(CE->getCallee()) == ExprSer::strip(cast<Expr>(child)) ||
              CE->getCallee() == child) {
            return true; // callee position: an ordinary call, not a value use
          }
          for (unsigned i = 0; i < CE->getNumArgs(); ++i)
            if (CE->getArg(i) == child) {
              ctx = json::Object{{"k", "arg"}, {"callee", S.callee(CE)}, {"index", (int64_t)i}};
              done = true;
            }
          if (!done) { ctx = json::Object{{"k", "other"}}; done = true; }
          break;
        }
        if (const auto *BO = dyn_cast<BinaryOperator>(PE)) {
          if (BO->isAssignmentOp() && BO->getRHS() == child) {
            ctx = json::Object{{"k", "store"}, {"lhs", S.ser(BO->getLHS())}};
          } else if (BO->isComparisonOp()) {
            ctx = json::Object{{"k", "compare"}};
          } else ctx = json::Object{{"k", "other"}};
          done = true; break;
        }
        if (const auto *IL = dyn_cast<InitListExpr>(PE)) {
          const InitListExpr *Sem = IL;
          if (IL->isSyntacticForm() && IL->getSemanticForm()) Sem = IL->getSemanticForm();
          std::string slot = "?";
          if (const RecordDecl *RD = Sem->getType()->getAsRecordDecl()) {
            unsigned i = 0;
            for (const FieldDecl *F : RD->fields()) {
              if (F->isUnnamedBitfield()) continue;
              if (i < Sem->getNumInits() && ExprSer::strip(Sem->getInit(i)) == ExprSer::strip(cast<Expr>(child)))
                slot = fieldName(F);
              ++i;
            }
          }
          ctx = json::Object{{"k", "init"}, {"slot", slot}};
          // find the variable being initialised
          DynTypedNode M = P;
          for (int d2 = 0; d2 < 8; ++d2) {
            auto Q = C.AC.getParents(M);
            if (Q.empty()) break;
            if (const auto *VD = Q[0].get<VarDecl>()) { ctx["var"] = VD->getName().str(); break; }
            M = Q[0];
          }
          done = true; break;
        }
        if (isa<ConditionalOperator>(PE)) { child = PE; N = P; continue; }
        if (isa<ReturnStmt>(PE)) { ctx = json::Object{{"k", "return"}}; done = true; break; }
        ctx = json::Object{{"k", "other"}, {"cls", PE->getStmtClassName()}};
        done = true; break;
      }
      if (const auto *VD = P.get<VarDecl>()) {
        ctx = json::Object{{"k", "varinit"}, {"var", VD->getName().str()}};
        done = true; break;
      }
      break;
    }
    if (!done) ctx = json::Object{{"k", "other"}};
    json::Object O{{"fn", FD->getName().str()},
                   {"line", (int64_t)lineOf(C, DR->getLocation())},
                   {"file", rel(fileOf(C, DR->getLocation()))},
                   {"ctx", std::move(ctx)}};
    if (curFn) O["in"] = curFn->getName().str();
    fnrefs.push_back(std::move(O));
    return true;
  }

  bool TraverseFunctionDecl(FunctionDecl *FD) {
    const FunctionDecl *save = curFn;
    if (FD->doesThisDeclarationHaveABody()) curFn = FD;
    bool r = RecursiveASTVisitor<Extractor>::TraverseFunctionDecl(FD);
    curFn = save;
    return r;
  }

  bool VisitFunctionDecl(FunctionDecl *FD) {
    if (!FD->doesThisDeclarationHaveABody()) return true;
    if (!inRepo(C, FD->getLocation())) return true;
    if (!seenFn.insert(FD->getCanonicalDecl()).second) return true;
    emitFunction(FD);
    return true;
  }

  static bool isEvent(const Stmt *St) {
    if (isa<CallExpr>(St)) {
      const auto *CE = cast<CallExpr>(St);
      if (const FunctionDecl *FD = CE->getDirectCallee())
        if (FD->getBuiltinID() == Builtin::BI__builtin_expect) return false;
      return true;
    }
    if (const auto *BO = dyn_cast<BinaryOperator>(St)) return BO->isAssignmentOp();
    if (const auto *UO = dyn_cast<UnaryOperator>(St)) return UO->isIncrementDecrementOp();
    if (isa<ReturnStmt>(St)) return true;
    if (const auto *DS = dyn_cast<DeclStmt>(St)) {
      for (const Decl *D : DS->decls())
        if (const auto *VD = dyn_cast<VarDecl>(D))
          if (VD->hasInit() || VD->hasLocalStorage()) return true;
      return false;
    }
    return false;
  }

  json::Object locOf(const Stmt *St) {
    json::Object O;
    SourceLocation B = St->getBeginLoc();
    O["loc"] = json::Array{(int64_t)lineOf(C, B), (int64_t)C.SM.getExpansionColumnNumber(B)};
    if (B.isMacroID()) {
      O["mac"] = macroStack(C, B);
      O["mtext"] = srcText(C, SourceRange(B, B), 200);
    }
    return O;
  }

  void emitFunction(FunctionDecl *FD) {
    json::Object F;
    F["name"] = FD->getName().str();
    F["file"] = rel(fileOf(C, FD->getLocation()));
    F["line"] = (int64_t)lineOf(C, FD->getLocation());
    F["endline"] = (int64_t)lineOf(C, FD->getEndLoc());
    F["static"] = FD->getStorageClass() == SC_Static;
    F["inline"] = FD->isInlineSpecified();
    F["ret"] = FD->getReturnType().getAsString();
    json::Array decls;
    for (const FunctionDecl *R : FD->redecls()) decls.push_back(rel(fileOf(C, R->getLocation())));
    F["decl_in"] = std::move(decls);
    json::Array ps;
    for (const ParmVarDecl *P : FD->parameters())
      ps.push_back(json::Array{P->getName().str(), P->getType().getAsString()});
    F["params"] = std::move(ps);

    CFG::BuildOptions BO;
    BO.setAllAlwaysAdd();
    BO.PruneTriviallyFalseEdges = true;
    BO.AddEHEdges = false;
    BO.AddImplicitDtors = false;
    std::unique_ptr<CFG> G = CFG::buildCFG(FD, FD->getBody(), &C.AC, BO);
    if (!G) {
      F["cfg_error"] = true;
      functions.push_back(std::move(F));
      return;
    }
    F["entry"] = (int64_t)G->getEntry().getBlockID();
    F["exit"] = (int64_t)G->getExit().getBlockID();
    json::Array locals;
    json::Array blocks;
    int nid = 0;
    for (const CFGBlock *B : *G) {
      json::Object JB;
      JB["id"] = (int64_t)B->getBlockID();
      json::Array elems;
      for (const CFGElement &E : *B) {
        auto CS = E.getAs<CFGStmt>();
        if (!CS) continue;
        const Stmt *St = CS->getStmt();
        if (!isEvent(St)) continue;
        json::Object JE = locOf(St);
        JE["n"] = (int64_t)nid++;
        if (const auto *RS = dyn_cast<ReturnStmt>(St)) {
          JE["e"] = RS->getRetValue() ? json::Array{"ret", S.ser(RS->getRetValue())}
                                      : json::Array{"ret", json::Array{"null"}};
        } else if (const auto *DS = dyn_cast<DeclStmt>(St)) {
          bool any = false;
          for (const Decl *D : DS->decls())
            if (const auto *VD = dyn_cast<VarDecl>(D)) {
              locals.push_back(json::Array{VD->getName().str(), VD->getType().getAsString(),
                                           (int64_t)lineOf(C, VD->getLocation())});
              if (VD->hasInit() && VD->hasLocalStorage()) {
                JE["e"] = json::Array{"decl", VD->getName().str(), VD->getType().getAsString(),
                                      S.ser(VD->getInit())};
                any = true;
              }
            }
          if (!any) continue;
        } else {
          // do not fold the event node itself
          JE["e"] = S.ser(cast<Expr>(St), false);
        }
        elems.push_back(std::move(JE));
      }
      JB["elems"] = std::move(elems);
      if (B->hasNoReturnElement()) JB["noreturn"] = true;
      // label
      if (const Stmt *L = B->getLabel()) {
        if (const auto *CS = dyn_cast<CaseStmt>(L)) {
          json::Array lab{"case"};
          Expr::EvalResult R;
          if (CS->getLHS()->EvaluateAsInt(R, C.AC)) lab.push_back((int64_t)R.Val.getInt().getExtValue());
          else lab.push_back(nullptr);
          lab.push_back(srcText(C, CS->getLHS()->getSourceRange(), 60));
          if (CS->getRHS()) {
            Expr::EvalResult R2;
            if (CS->getRHS()->EvaluateAsInt(R2, C.AC)) lab.push_back((int64_t)R2.Val.getInt().getExtValue());
          }
          JB["label"] = std::move(lab);
        } else if (isa<DefaultStmt>(L)) {
          JB["label"] = json::Array{"default"};
        } else if (const auto *LS = dyn_cast<LabelStmt>(L)) {
          JB["label"] = json::Array{"label", LS->getName()};
        }
      }
      // terminator
      if (const Stmt *T = B->getTerminatorStmt()) {
        json::Object JT;
        const char *k = "other";
        if (isa<IfStmt>(T)) k = "if";
        else if (isa<WhileStmt>(T)) k = "while";
        else if (isa<ForStmt>(T)) k = "for";
        else if (isa<DoStmt>(T)) k = "do";
        else if (isa<SwitchStmt>(T)) k = "switch";
        else if (isa<ConditionalOperator>(T) || isa<BinaryConditionalOperator>(T)) k = "cond";
        else if (const auto *BO2 = dyn_cast<BinaryOperator>(T)) k = BO2->getOpcode() == BO_LAnd ? "and" : "or";
        else if (isa<GotoStmt>(T)) k = "goto";
        else if (isa<BreakStmt>(T)) k = "break";
        else if (isa<ContinueStmt>(T)) k = "continue";
        else if (isa<IndirectGotoStmt>(T)) k = "igoto";
        JT["k"] = k;
        const Expr *Cond = nullptr;
        if (B->succ_size() >= 2) {
          Cond = B->getLastCondition();
          if (!Cond) Cond = dyn_cast_or_null<Expr>(B->getTerminatorCondition());
        }
        if (Cond) {
          JT["cond"] = S.ser(Cond);
          SourceLocation CB = Cond->getBeginLoc();
          if (CB.isMacroID()) {
            JT["mac"] = macroStack(C, CB);
            JT["mtext"] = srcText(C, SourceRange(CB, CB), 200);
          }
          JT["loc"] = json::Array{(int64_t)lineOf(C, CB), (int64_t)C.SM.getExpansionColumnNumber(CB)};
        } else {
          JT["loc"] = json::Array{(int64_t)lineOf(C, T->getBeginLoc()), 0};
        }
        JB["term"] = std::move(JT);
      }
      json::Array succ;
      bool isSwitch = B->getTerminatorStmt() && isa<SwitchStmt>(B->getTerminatorStmt());
      unsigned si = 0;
      for (auto It = B->succ_begin(); It != B->succ_end(); ++It, ++si) {
        const CFGBlock *SB = It->getReachableBlock();
        if (!SB) {
          // pruned (statically false) edge: keep a marker so that T/F positions stay meaningful
          succ.push_back(json::Array{nullptr, B->succ_size() == 2 ? (si == 0 ? "T" : "F") : "x"});
          continue;
        }
        std::string lab = "";
        if (B->succ_size() == 2 && !isSwitch) lab = si == 0 ? "T" : "F";
        else if (isSwitch) lab = "sw";
        succ.push_back(json::Array{(int64_t)SB->getBlockID(), lab});
      }
      JB["succ"] = std::move(succ);
      blocks.push_back(std::move(JB));
    }
    F["blocks"] = std::move(blocks);
    F["locals"] = std::move(locals);
    functions.push_back(std::move(F));
  }
};

class Consumer : public ASTConsumer {
public:
  void HandleTranslationUnit(ASTContext &AC) override {
    Extractor X(AC);
    X.TraverseDecl(AC.getTranslationUnitDecl());
    json::Object Root;
    SourceManager &SM = AC.getSourceManager();
    Root["unit"] = rel(SM.getFileEntryForID(SM.getMainFileID())->getName().str());
    Root["records"] = std::move(X.records);
    Root["enums"] = std::move(X.enums);
    Root["globals"] = std::move(X.globals);
    Root["fnrefs"] = std::move(X.fnrefs);
    Root["functions"] = std::move(X.functions);
    std::error_code EC;
    llvm::raw_fd_ostream OS(gOut, EC);
    if (EC) {
      llvm::errs() << "lvx: cannot write " << gOut << "\n";
      exit(3);
    }
    OS << json::Value(std::move(Root));
    OS << "\n";
  }
};

class Action : public ASTFrontendAction {
public:
  std::unique_ptr<ASTConsumer> CreateASTConsumer(CompilerInstance &, StringRef) override {
    return std::make_unique<Consumer>();
  }
};

} // namespace

int main(int argc, const char **argv) {
  if (argc < 5) {
    llvm::errs() << "usage: lvx <out.json> <repo-root> <source.c> -- <flags>\n";
    return 2;
  }
  gOut = argv[1];
  gRoot = argv[2];
  std::string src = argv[3];
  std::vector<std::string> flags;
  int i = 4;
  if (std::string(argv[i]) == "--") ++i;
  for (; i < argc; ++i) flags.push_back(argv[i]);
  flags.push_back("-w");
  flags.push_back("-resource-dir");
  flags.push_back("/usr/lib/llvm-14/lib/clang/14.0.6");
  clang::tooling::FixedCompilationDatabase DB(".", flags);
  clang::tooling::ClangTool Tool(DB, {src});
  int r = Tool.run(clang::tooling::newFrontendActionFactory<Action>().get());
  return r;
}
