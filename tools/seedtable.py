#!/usr/bin/env python3
"""seedtable.py: regenerates the table of section 9.4 of DESIGN.md from seeded/*/meta.json (between the table header and the 'Lessons' paragraph)."""
import json, os, re
root = os.path.dirname(os.path.dirname(os.path.abspath(__file__)))
rows = []
stats = {"independent": 0, "missed at first": 0, "knowing the seed": 0, "caught": 0}
for d in sorted(os.listdir(os.path.join(root, "seeded"))):
    mp = os.path.join(root, "seeded", d, "meta.json")
    if not os.path.exists(mp):
        continue
    m = json.load(open(mp))
    cb = ", ".join(m.get("caught_by", []))
    low = cb.lower()
    if "missed" in low or "added after" in low or "strengthened after" in low or "first-run-analysis-broken" in low:
        how = "missed at first"
    elif "knowing" in low:
        how = "knowing the seed"
    elif "independent" in low:
        how = "independent"
    else:
        how = "caught"
    stats[how] += 1
    rows.append("| `%s` | %s | %s |" % (d, cb.replace("|", "/"), how))
p = os.path.join(root, "DESIGN.md")
s = open(p).read()
a = s.index("| seeded change (`/verif/seeded/<dir>`) | caught by | how |")
b = s.index("Lessons that changed the checks:")
hdr = "| seeded change (`/verif/seeded/<dir>`) | caught by | how |\n|---|---|---|\n"
summary = "\n%d kept: %d caught independently by a rule that predates the seed (%d more \"caught\" in the first sessions, before the distinction was recorded), %d missed at first (rule added or strengthened afterwards), %d caught by a check written knowing the seed.\n\n" % (
    len(rows), stats["independent"], stats["caught"], stats["missed at first"], stats["knowing the seed"])
s = s[:a] + hdr + "\n".join(rows) + "\n" + summary + s[b:]
s = re.sub(r"`meta.json`\. \d+ kept so far\.", "`meta.json`. %d kept so far." % len(rows), s)
open(p, "w").write(s)
print(len(rows), stats)
