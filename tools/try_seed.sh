#!/bin/bash
# try_seed.sh <patch> <ID> [more IDs]: apply a seeded change to /repo, run the checks, undo it straight afterwards.
P=$(realpath $1); shift
git -C /repo apply "$P" || exit 2
for id in "$@"; do
  /verif/check $id --no-evidence 2>&1 | grep -v "^RULE.* ok$" | head -12
done
git -C /repo checkout -- .
git -C /repo status --short | head -3
