#!/bin/bash
# mkseedwt.sh <ID> [suffix]: scratch worktree /tmp/seed/<ID><suffix> of /repo's HEAD + the property text next to it (for an independent sub-agent)
ID=$1; SUF=$2
W=/tmp/seed/$ID$SUF
mkdir -p /tmp/seed
git -C /repo worktree remove --force $W 2>/dev/null
rm -rf $W
git -C /repo worktree add --detach $W HEAD >/dev/null 2>&1 || exit 2
python3 - "$ID" > $W.prop.txt <<'P'
import json,sys
for l in open('/verif/properties.jsonl'):
    p=json.loads(l)
    if p['id']==sys.argv[1]:
        print("%s — %s. %s Quantified over: %s" % (p['id'], p['title'], p['statement'], p['quantifier']['text']))
P
( cd $W && cmake -S . -B _b -G Ninja -DEVENT__DISABLE_BENCHMARK=ON -DEVENT__DISABLE_SAMPLES=ON >/dev/null 2>&1 && cmake --build _b >/dev/null 2>&1 )
echo $W; cat $W.prop.txt
