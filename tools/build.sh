#!/bin/sh
# setup: build the fact extractor (offline; needs only clang 14 + llvm-14 dev files)
# and configure a private cmake build dir so that event-config.h / evconfig-private.h
# and the compilation database are generated from /repo's current tree.
set -e
cd "$(dirname "$0")/.."
mkdir -p build
if [ ! -x build/lvx ] || [ tools/lvx.cc -nt build/lvx ]; then
  clang++ $(llvm-config-14 --cxxflags) -O1 -fno-rtti tools/lvx.cc -o build/lvx.tmp \
    /usr/lib/llvm-14/lib/libclang-cpp.so.14 /usr/lib/llvm-14/lib/libLLVM-14.so
  mv build/lvx.tmp build/lvx
fi
cmake -S /repo -B build/cfg -G Ninja >build/cfg.log 2>&1 || { cat build/cfg.log; exit 1; }
echo "setup ok"
